#![allow(non_camel_case_types, non_snake_case, dead_code)]
#[tarpc::service]
pub trait Rej74 {
    async fn a_b_(a0: i32) -> i32;
    async fn a_b(a0: i32, a1: String);
}
fn main() {}
