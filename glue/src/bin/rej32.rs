#![allow(non_camel_case_types, non_snake_case, dead_code)]
#[tarpc::service]
pub trait Rej32 {
    async fn b(ctx: tarpc::context::Context);
    async fn a_b_(ctx: tarpc::context::Context) -> String;
}
fn main() {}
