#![allow(non_camel_case_types, non_snake_case, dead_code)]
#[tarpc::service]
pub trait Rej32 {
    async fn b(ctx: tarpc::context::Context) -> i32;
    async fn aB(a0: i32);
}
fn main() {}
