#![allow(non_camel_case_types, non_snake_case, dead_code)]
#[tarpc::service]
pub trait Rej81 {
    async fn aB(a0: i32, a1: String);
    async fn ab(a0: i32, a1: i32) -> String;
}
fn main() {}
