#![allow(non_camel_case_types, non_snake_case, dead_code)]
#[tarpc::service]
pub trait Rej80 {
    async fn r#fn(a0: i32, a1: i32);
    async fn new() -> String;
}
fn main() {}
