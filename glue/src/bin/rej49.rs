#![allow(non_camel_case_types, non_snake_case, dead_code)]
#[tarpc::service]
pub trait Rej49 {
    async fn serve(a0: i32, a1: i32) -> String;
}
fn main() {}
