#![allow(non_camel_case_types, non_snake_case, dead_code)]
#[tarpc::service]
pub trait Rej30 {
    async fn a__b(a0: i32, a1: String);
    async fn a_b() -> String;
}
fn main() {}
