#![allow(non_camel_case_types, non_snake_case, dead_code)]
#[tarpc::service]
pub trait Rej52 {
    async fn a_b(a0: i32, a1: String);
    async fn a_b_(a0: i32, a1: i32) -> String;
}
fn main() {}
