#![allow(non_camel_case_types, non_snake_case, dead_code)]
#[tarpc::service]
pub trait Rej26 {
    async fn Ab(ctx: tarpc::context::Context);
}
fn main() {}
