#![allow(non_camel_case_types, non_snake_case, dead_code)]
#[tarpc::service]
pub trait Rej26 {
    async fn r#fn();
    async fn serve(a0: i32);
}
fn main() {}
