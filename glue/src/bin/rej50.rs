#![allow(non_camel_case_types, non_snake_case, dead_code)]
#[tarpc::service]
pub trait Rej50 {
    async fn r#fn(a0: i32, a1: String) -> i32;
    async fn serve(a0: i32);
}
fn main() {}
