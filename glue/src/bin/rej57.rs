#![allow(non_camel_case_types, non_snake_case, dead_code)]
#[tarpc::service]
pub trait Rej57 {
    async fn r#fn(ctx: tarpc::context::Context);
}
fn main() {}
