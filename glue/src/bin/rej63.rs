#![allow(non_camel_case_types, non_snake_case, dead_code)]
#[tarpc::service]
pub trait Rej63 {
    async fn Ab() -> i32;
    async fn ab() -> i32;
}
fn main() {}
