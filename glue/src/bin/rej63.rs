#![allow(non_camel_case_types, non_snake_case, dead_code)]
#[tarpc::service]
pub trait Rej63 {
    async fn Ab();
    async fn ab(a0: i32, a1: String) -> i32;
}
fn main() {}
