#![allow(non_camel_case_types, non_snake_case, dead_code)]
#[tarpc::service]
pub trait Rej65 {
    async fn new(a0: i32);
    async fn Ab();
}
fn main() {}
