#![allow(non_camel_case_types, non_snake_case, dead_code)]
#[tarpc::service]
pub trait Rej47 {
    async fn _a_b(a0: i32, a1: String) -> String;
    async fn serve();
}
fn main() {}
