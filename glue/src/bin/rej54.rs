#![allow(non_camel_case_types, non_snake_case, dead_code)]
#[tarpc::service]
pub trait Rej54 {
    async fn aB(ctx: tarpc::context::Context) -> i32;
    async fn Ab() -> String;
}
fn main() {}
