#![allow(non_camel_case_types, non_snake_case, dead_code)]
#[tarpc::service]
pub trait Rej51 {
    async fn a1() -> i32;
    async fn r#fn(ctx: tarpc::context::Context) -> i32;
}
fn main() {}
