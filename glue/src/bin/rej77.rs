#![allow(non_camel_case_types, non_snake_case, dead_code)]
#[tarpc::service]
pub trait Rej77 {
    async fn ab(ctx: tarpc::context::Context) -> String;
    async fn serve() -> String;
}
fn main() {}
