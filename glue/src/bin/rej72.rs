#![allow(non_camel_case_types, non_snake_case, dead_code)]
#[tarpc::service]
pub trait Rej72 {
    async fn r#fn(ctx: tarpc::context::Context) -> String;
    async fn new(a0: i32, a1: i32);
}
fn main() {}
