#![allow(non_camel_case_types, non_snake_case, dead_code)]
#[tarpc::service]
pub trait Rej33 {
    async fn b(a0: i32, a1: i32) -> String;
    async fn new(a0: i32, a1: i32) -> String;
}
fn main() {}
