#![allow(non_camel_case_types, non_snake_case, dead_code)]
#[tarpc::service]
pub trait Rej76 {
    async fn a1(a0: i32, a1: String) -> String;
    async fn a_b_(ctx: tarpc::context::Context);
}
fn main() {}
