#![allow(non_camel_case_types, non_snake_case, dead_code)]
#[tarpc::service]
pub trait Rej76 {
    async fn ab(a0: i32);
    async fn a1(ctx: tarpc::context::Context);
}
fn main() {}
