#![allow(non_camel_case_types, non_snake_case, dead_code)]
#[tarpc::service]
pub trait Rej55 {
    async fn a_b(a0: i32, a1: i32);
    async fn serve() -> String;
}
fn main() {}
