#![allow(non_camel_case_types, non_snake_case, dead_code)]
#[tarpc::service]
pub trait Rej27 {
    async fn Ab() -> String;
    async fn aB(a0: i32) -> i32;
}
fn main() {}
