#![allow(non_camel_case_types, non_snake_case, dead_code)]
#[tarpc::service]
pub trait Rej70 {
    async fn a_b(ctx: tarpc::context::Context) -> String;
}
fn main() {}
