#![allow(non_camel_case_types, non_snake_case, dead_code)]
#[tarpc::service]
pub trait Rej71 {
    async fn new(a0: i32);
}
fn main() {}
