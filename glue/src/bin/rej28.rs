#![allow(non_camel_case_types, non_snake_case, dead_code)]
#[tarpc::service]
pub trait Rej28 {
    async fn serve() -> String;
    async fn r#fn(a0: i32, a1: i32) -> String;
}
fn main() {}
