--------------------------- MODULE ChannelsPerKey ---------------------------
(***************************************************************************)
(* Mechanism model of tarpc::server::limits::channels_per_key.             *)
(*                                                                         *)
(* One action per step of MaxChannelsPerKey::poll_next:                    *)
(*   P_Begin     the executor polls the stream (only after a wake-up)      *)
(*   P_Listener  poll_listener -> handle_new_channel ->                    *)
(*               increment_channels_for_key                                *)
(*   P_Closed    poll_closed_channels (one dropped-key notification)       *)
(*   P_Match     the match on the pair of results                          *)
(* and the environment: Arrive (a connection reaches the listener), Close  *)
(* (a yielded TrackedChannel is dropped: Arc<Tracker> strong count - 1,    *)
(* the last one sends its key on the unbounded dropped_keys queue),        *)
(* ListenerEnd.  Wakers are explicit: the listener and the dropped_keys    *)
(* receiver each remember the task's waker only when they returned Pending.*)
(*                                                                         *)
(* FixF1 = FALSE models the code before the repair of finding F1           *)
(* (poll_closed_channels removes the key's entry unconditionally);         *)
(* FixF1 = TRUE removes it only when the entry's tracker is dead.          *)
(***************************************************************************)
EXTENDS Naturals, Sequences, FiniteSets, TLC, ObsKeys

CONSTANTS Keys, Limit, MaxArrivals, AtomicPolls, FixF1, ExportSched

VARIABLES
  lq,        \* listener queue: Seq of <<ch, key>>
  lended,    \* listener stream ended
  lwaker,    \* listener holds the limiter's waker
  nextCh,    \* arrivals so far
  keyMap,    \* key_counts: key -> tracker id (0 = no entry); the entry is a Weak
  trCnt,     \* tracker id -> strong count (0 = dead)
  nextTr,    \* trackers allocated so far
  chTr,      \* live yielded channel -> its tracker
  chKey,     \* live yielded channel -> its key
  notif,     \* dropped_keys queue: Seq of key
  nwaker,    \* dropped_keys receiver holds the limiter's waker
  woken,     \* the limiter task has been woken and not yet polled
  pc,        \* "idle" | "listener" | "closed" | "match" | "done"
  lres,      \* result of poll_listener in this iteration
  cres,      \* result of poll_closed_channels in this iteration
  held,      \* <<ch, key, tracker>> of the channel poll_listener accepted, until P_Match yields it
  sched      \* history: the schedule (environment and Poll steps) of this behaviour

MechVars == <<lq, lended, lwaker, nextCh, keyMap, trCnt, nextTr, chTr, chKey, notif, nwaker,
              woken, pc, lres, cres, held>>
vars == <<MechVars, ObsVars, sched>>

MaxTr == MaxArrivals
None3 == <<0, 0, 0>>

Rec(a) == IF ExportSched THEN sched' = Append(sched, a) ELSE sched' = sched

Init ==
  /\ lq = <<>> /\ lended = FALSE /\ lwaker = FALSE
  /\ nextCh = 0
  /\ keyMap = [k \in Keys |-> 0]
  /\ trCnt = [t \in 1..MaxTr |-> 0]
  /\ nextTr = 0
  /\ chTr = <<>> /\ chKey = <<>>
  /\ notif = <<>> /\ nwaker = FALSE
  /\ woken = TRUE          \* a freshly spawned task is scheduled once
  /\ pc = "idle"
  /\ lres = "none" /\ cres = "none" /\ held = None3
  /\ sched = <<>>
  /\ ObsInit(Limit)

EnvEnabled == pc \in {"idle", "done"} \/ ~AtomicPolls

(* ----------------------------- environment ----------------------------- *)

Arrive(k) ==
  /\ EnvEnabled /\ ~lended /\ nextCh < MaxArrivals
  /\ nextCh' = nextCh + 1
  /\ lq' = Append(lq, <<nextCh + 1, k>>)
  /\ woken' = (woken \/ lwaker)
  /\ lwaker' = FALSE
  /\ ObsArrive(nextCh + 1)
  /\ Rec([a |-> "Arrive", k |-> k])
  /\ UNCHANGED <<lended, keyMap, trCnt, nextTr, chTr, chKey, notif, nwaker, pc, lres, cres, held>>

ListenerEnd ==
  /\ EnvEnabled /\ ~lended
  /\ lended' = TRUE
  /\ woken' = (woken \/ lwaker)
  /\ lwaker' = FALSE
  /\ Rec([a |-> "End"])
  /\ UNCHANGED <<lq, nextCh, keyMap, trCnt, nextTr, chTr, chKey, notif, nwaker, pc, lres, cres, held>>
  /\ UNCHANGED ObsVars

(* Dropping a yielded TrackedChannel drops its Arc<Tracker>. *)
Close(ch) ==
  /\ EnvEnabled /\ ch \in DOMAIN chTr
  /\ LET t == chTr[ch] k == chKey[ch] IN
       /\ trCnt' = [trCnt EXCEPT ![t] = @ - 1]
       /\ IF trCnt[t] = 1
            THEN /\ notif' = Append(notif, k)       \* Tracker::drop sends the key
                 /\ woken' = (woken \/ nwaker)
                 /\ nwaker' = FALSE
            ELSE UNCHANGED <<notif, woken, nwaker>>
  /\ chTr' = [c \in DOMAIN chTr \ {ch} |-> chTr[c]]
  /\ chKey' = [c \in DOMAIN chKey \ {ch} |-> chKey[c]]
  /\ ObsClose(ch)
  /\ Rec([a |-> "Close", ch |-> ch])
  /\ UNCHANGED <<lq, lended, lwaker, nextCh, keyMap, nextTr, pc, lres, cres, held>>

(* ------------------------- MaxChannelsPerKey::poll_next ------------------------- *)

P_Begin ==
  /\ pc = "idle" /\ woken
  /\ woken' = FALSE
  /\ pc' = "listener"
  /\ UNCHANGED <<lq, lended, lwaker, nextCh, keyMap, trCnt, nextTr, chTr, chKey, notif, nwaker,
                 lres, cres, held, sched>>
  /\ UNCHANGED ObsVars

(* poll_listener: Fuse<S>::poll_next, then handle_new_channel/increment_channels_for_key *)
P_Listener ==
  /\ pc = "listener"
  /\ pc' = "closed"
  /\ IF lq # <<>> THEN
       LET ch == Head(lq)[1] k == Head(lq)[2] t == keyMap[k] IN
       /\ lq' = Tail(lq)
       /\ IF t = 0 THEN                                   \* Entry::Vacant: new tracker
            /\ nextTr' = nextTr + 1
            /\ trCnt' = [trCnt EXCEPT ![nextTr + 1] = 1]
            /\ keyMap' = [keyMap EXCEPT ![k] = nextTr + 1]
            /\ held' = <<ch, k, nextTr + 1>> /\ lres' = "ok"
            /\ UNCHANGED ObsVars
          ELSE IF trCnt[t] >= Limit THEN                  \* at the limit: shed
            /\ lres' = "shed" /\ held' = None3
            /\ ObsShed(ch, k)
            /\ UNCHANGED <<nextTr, trCnt, keyMap>>
          ELSE IF trCnt[t] > 0 THEN                       \* upgrade() succeeds
            /\ trCnt' = [trCnt EXCEPT ![t] = @ + 1]
            /\ held' = <<ch, k, t>> /\ lres' = "ok"
            /\ UNCHANGED <<nextTr, keyMap>> /\ UNCHANGED ObsVars
          ELSE                                            \* dead Weak: replace the entry
            /\ nextTr' = nextTr + 1
            /\ trCnt' = [trCnt EXCEPT ![nextTr + 1] = 1]
            /\ keyMap' = [keyMap EXCEPT ![k] = nextTr + 1]
            /\ held' = <<ch, k, nextTr + 1>> /\ lres' = "ok"
            /\ UNCHANGED ObsVars
       /\ UNCHANGED <<lwaker>>
     ELSE IF lended THEN
       /\ lres' = "end" /\ held' = None3
       /\ UNCHANGED <<lq, lwaker, nextTr, trCnt, keyMap>> /\ UNCHANGED ObsVars
     ELSE
       /\ lres' = "pending" /\ held' = None3 /\ lwaker' = TRUE
       /\ UNCHANGED <<lq, nextTr, trCnt, keyMap>> /\ UNCHANGED ObsVars
  /\ UNCHANGED <<lended, nextCh, chTr, chKey, notif, nwaker, woken, cres, sched>>

(* poll_closed_channels: one notification from the unbounded queue *)
P_Closed ==
  /\ pc = "closed"
  /\ pc' = "match"
  /\ IF notif # <<>> THEN
       LET k == Head(notif) IN
       /\ notif' = Tail(notif)
       /\ cres' = "ready"
       /\ keyMap' = IF FixF1 /\ keyMap[k] # 0 /\ trCnt[keyMap[k]] > 0
                      THEN keyMap                          \* entry was re-populated: keep it
                      ELSE [keyMap EXCEPT ![k] = 0]
       /\ UNCHANGED nwaker
     ELSE
       /\ cres' = "pending" /\ nwaker' = TRUE
       /\ UNCHANGED <<notif, keyMap>>
  /\ UNCHANGED <<lq, lended, lwaker, nextCh, trCnt, nextTr, chTr, chKey, woken, lres, held, sched>>
  /\ UNCHANGED ObsVars

LiveSet == DOMAIN chTr

P_Match ==
  /\ pc = "match"
  /\ lres' = "none" /\ cres' = "none"
  /\ CASE lres = "ok" ->                                   \* return Ready(Some(channel))
            /\ pc' = "idle"
            /\ chTr' = [c \in DOMAIN chTr \cup {held[1]} |-> IF c = held[1] THEN held[3] ELSE chTr[c]]
            /\ chKey' = [c \in DOMAIN chKey \cup {held[1]} |-> IF c = held[1] THEN held[2] ELSE chKey[c]]
            /\ held' = None3
            /\ woken' = TRUE                               \* a stream that yielded is polled again
            /\ ObsYield(held[1], held[2])
            /\ Rec([a |-> "Poll", res |-> "yield", ch |-> held[1]])
       [] lres = "shed" \/ (lres # "ok" /\ cres = "ready") ->   \* continue
            /\ pc' = "listener"
            /\ UNCHANGED <<chTr, chKey, held, woken, sched>> /\ UNCHANGED ObsVars
       [] lres = "pending" /\ cres = "pending" ->           \* return Pending
            /\ pc' = "idle"
            /\ ObsPending
            /\ Rec([a |-> "Poll", res |-> "pending"])
            /\ UNCHANGED <<chTr, chKey, held, woken>>
       [] lres = "end" /\ cres = "pending" ->               \* return Ready(None)
            /\ pc' = "done"
            /\ Rec([a |-> "Poll", res |-> "none"])
            /\ UNCHANGED <<chTr, chKey, held, woken>> /\ UNCHANGED ObsVars
  /\ UNCHANGED <<lq, lended, lwaker, nextCh, keyMap, trCnt, nextTr, notif, nwaker>>

Next ==
  \/ \E k \in Keys : Arrive(k)
  \/ ListenerEnd
  \/ \E ch \in DOMAIN chTr : Close(ch)
  \/ P_Begin \/ P_Listener \/ P_Closed \/ P_Match

Spec == Init /\ [][Next]_vars

(* ------------------------------ properties ------------------------------ *)

TypeOK ==
  /\ pc \in {"idle", "listener", "closed", "match", "done"}
  /\ nextCh \in 0..MaxArrivals /\ nextTr \in 0..MaxTr
  /\ \A k \in Keys : keyMap[k] \in 0..MaxTr

(* the model's own tracking agrees with the observer's ground truth *)
LiveAgree == {p[1] : p \in olive} = DOMAIN chTr

(* every live channel of a key shares the tracker the key's entry points to, and that       *)
(* tracker's strong count is the number of live channels (+1 while one is held in the poll) *)
TrackerInv ==
  \A k \in Keys :
    LET chans == {c \in DOMAIN chTr : chKey[c] = k} IN
      chans # {} => /\ keyMap[k] # 0
                    /\ \A c \in chans : chTr[c] = keyMap[k]
                    /\ trCnt[keyMap[k]] = Cardinality(chans) + (IF held[2] = k THEN 1 ELSE 0)

(* no lost wake-up: if the limiter is idle and has not been woken, nothing is waiting for it *)
NoLostWake ==
  (pc = "idle" /\ ~woken) => (lq = <<>> /\ notif = <<>> /\ ~lended)

(* used with -deadlock off to print one schedule per terminal state *)
Terminal == ~ENABLED Next
ExportInv == (ExportSched /\ Terminal) => PrintT(<<"SCHED", sched>>)

=============================================================================
