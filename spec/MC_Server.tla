----------------------------- MODULE MC_Server -----------------------------
EXTENDS Server, Json
NoLimit == -1
View == [S EXCEPT !.sched = <<>>, !.o = 0]
ExportJson == (ExportSched /\ ~ENABLED Next) => PrintT("SCHED " \o ToJson([tags |-> S.tags, steps |-> S.sched]))
=============================================================================
