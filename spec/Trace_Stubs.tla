----------------------------- MODULE Trace_Stubs -----------------------------
(***************************************************************************)
(* Trace driver / observer for C20 (harness family `stubs`).               *)
(* Round robin under real threads: the per-thread pick sequences must have *)
(* a linearisation in which the g-th pick goes to backend g mod n (the     *)
(* behaviour of Stubs.tla's atomic Pick); CanLin searches for it.          *)
(***************************************************************************)
EXTENDS Naturals, Integers, Sequences, FiniteSets, TLC, Json, IOUtils

Rec == ndJsonDeserialize(IOEnv.TRACE)

VARIABLES l, scn, kind, n, seqs, att, lastres, pend, hmap, bad
tvars == <<l, scn, kind, n, seqs, att, lastres, pend, hmap, bad>>

TInit == l = 1 /\ scn = 0 /\ kind = "" /\ n = 1 /\ seqs = <<>> /\ att = 0 /\ lastres = "" /\ pend = "none"
         /\ hmap = <<>> /\ bad = {}

(* is there an interleaving of the per-thread sequences that follows the cursor 0,1,2,... mod n ? *)
RECURSIVE CanLin(_, _, _)
CanLin(ss, pos, g) ==
  IF \A t \in DOMAIN ss : pos[t] > Len(ss[t]) THEN TRUE
  ELSE \E t \in DOMAIN ss : /\ pos[t] <= Len(ss[t]) /\ ss[t][pos[t]] = g % n
                            /\ CanLin(ss, [pos EXCEPT ![t] = @ + 1], g + 1)

Step ==
  /\ l <= Len(Rec)
  /\ l' = l + 1
  /\ LET e == Rec[l] IN
     /\ scn' = e.scn
     /\ CASE e.ev = "Reset" ->
               /\ kind' = e.kind /\ n' = e.n /\ seqs' = <<>> /\ att' = 0 /\ lastres' = "" /\ pend' = "none"
               /\ hmap' = <<>> /\ bad' = {}
          [] e.ev = "Pick" ->
               /\ seqs' = IF e.t \in DOMAIN seqs THEN [seqs EXCEPT ![e.t] = Append(@, e.b)]
                          ELSE seqs @@ (e.t :> <<e.b>>)
               /\ bad' = IF e.b < n THEN bad ELSE bad \cup {"backend out of range"}
               /\ UNCHANGED <<kind, n, att, lastres, pend, hmap>>
          [] e.ev = "RRDone" ->
               /\ bad' = (IF CanLin(seqs, [t \in DOMAIN seqs |-> 1], 0) THEN bad
                          ELSE bad \cup {"no linearisation of the picks follows the cursor"})
                         \cup (IF \A i, j \in DOMAIN e.counts : e.counts[i] - e.counts[j] <= 1 THEN {}
                               ELSE {"per-backend counts differ by more than one"})
               /\ UNCHANGED <<kind, n, seqs, att, lastres, pend, hmap>>
          [] e.ev = "PickG" ->
               /\ bad' = IF e.b = e.g % n THEN bad ELSE bad \cup {"pick does not follow the cursor"}
               /\ UNCHANGED <<kind, n, seqs, att, lastres, pend, hmap>>
          [] e.ev = "PickCH" ->
               /\ bad' = (IF e.b < n /\ e.b = e.hvmod THEN bad ELSE bad \cup {"backend is not hash mod n"})
                         \cup (IF e.req \in DOMAIN hmap /\ hmap[e.req] # e.b THEN {"equal requests went to different backends"} ELSE {})
               /\ hmap' = IF e.req \in DOMAIN hmap THEN hmap ELSE hmap @@ (e.req :> e.b)
               /\ UNCHANGED <<kind, n, seqs, att, lastres, pend>>
          [] e.ev = "Attempt" ->
               /\ att' = att + 1 /\ lastres' = e.res /\ pend' = "policy"
               /\ bad' = (IF e.n = att + 1 /\ e.same /\ e.req = 77 THEN bad ELSE bad \cup {"attempt out of order or with a different request"})
                         \cup (IF e.dlsame THEN {} ELSE {"an attempt was issued with another deadline than the caller's"})
                         \cup (IF e.trsame THEN {} ELSE {"an attempt was issued with another trace context than the caller's"})
                         \cup (IF pend \in {"none", "attempt"} THEN {} ELSE {"attempt although the policy was not consulted / declined"})
               /\ UNCHANGED <<kind, n, seqs, hmap>>
          [] e.ev = "Policy" ->
               /\ bad' = IF e.n = att /\ e.res = lastres /\ pend = "policy" THEN bad
                         ELSE bad \cup {"policy consulted with the wrong attempt number or result"}
               /\ pend' = IF e.d THEN "attempt" ELSE "return"
               /\ UNCHANGED <<kind, n, seqs, att, lastres, hmap>>
          [] e.ev = "Return" ->
               /\ bad' = IF pend = "return" /\ e.res = lastres /\ (e.res = "ok" => e.v = att) THEN bad
                         ELSE bad \cup {"returned although the policy asked for a retry, or not the last result"}
               /\ pend' = "done"
               /\ UNCHANGED <<kind, n, seqs, att, lastres, hmap>>
          [] e.ev = "Panic" -> bad' = bad \cup {"panic"} /\ UNCHANGED <<kind, n, seqs, att, lastres, pend, hmap>>
          [] OTHER -> UNCHANGED <<kind, n, seqs, att, lastres, pend, hmap, bad>>

TSpec == TInit /\ [][Step]_tvars
Report(name, ok) == ok \/ PrintT(<<"REPORT", name, scn, l - 1, {}>>)
Verdict_C20 == Report("Inv_C20", bad = {})
(* C07 / C18 through the retry stub: a re-issued request carries the caller's deadline / trace context *)
Verdict_C07 == Report("Inv_C07retry", "an attempt was issued with another deadline than the caller's" \notin bad)
Verdict_C18 == Report("Inv_C18retry", "an attempt was issued with another trace context than the caller's" \notin bad)
Accepted == l = Len(Rec) + 1 => PrintT(<<"ACCEPTED", Len(Rec)>>)
=============================================================================
