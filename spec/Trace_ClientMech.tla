-------------------------- MODULE Trace_ClientMech --------------------------
(***************************************************************************)
(* Code -> mechanism conformance for the client side.                      *)
(*                                                                         *)
(* A trace recorded by the harness family `client` (TLC-derived, pinned or *)
(* random schedule - any of them) is replayed through the operators of     *)
(* Client.tla: every environment event of the trace applies the operator   *)
(* the corresponding action of the specification uses (F_CallStart,        *)
(* F_PeerSend, F_Tick, ...), every poll of the dispatch applies            *)
(* F_DispatchPoll (the pc machine run to its Pending/Ready), every poll of *)
(* a call future applies C_Poll, and the three steps of the guard's drop   *)
(* apply Ab_Enter / Ab_Close / Ab_Cancel at the hook H1 yield points.      *)
(* Because every operator is deterministic the search is linear.           *)
(*                                                                         *)
(* After each step the part of the specification's state that the code     *)
(* exposes is compared with what the code reported:                        *)
(*   dispatch poll : result (pending/ready), in-flight count, timer count  *)
(*                   (hook H3), whether the poll woke itself               *)
(*   call poll     : pending / resolved, and the kind and body it resolved *)
(*                   with                                                  *)
(*   settle points : unread replies, counts, dispatch alive, and that the  *)
(*                   specification too has no task left woken              *)
(* The first difference in a scenario is printed as a MECH line and the    *)
(* scenario is skipped from there (the states have diverged).  This is a   *)
(* statement about the specification (it describes this code), not about   *)
(* a property: it is reported as drift and never decides a verdict.        *)
(*                                                                         *)
(* The constants MaxInFlight, Buf, SinkMode, Cap come from the scenario's  *)
(* configuration: the driver splits a trace by configuration and runs this *)
(* module once per group.                                                  *)
(***************************************************************************)
EXTENDS Client, Json, IOUtils

TraceRec == ndJsonDeserialize(IOEnv.TRACE)
MechCallers == 1..12
VARIABLES l, scn, live, total, good
mvars == <<S, l, scn, live, total, good>>

WhoNum(w) == CHOOSE c \in Callers : ("c" \o ToString(c)) = w
Say(ok, what, x) == ok \/ (PrintT(<<"MECH", scn, l, what, x>>) /\ FALSE)
Alive(s) == {t \in s.woken : IF t = D THEN s.dstate = "live" ELSE s.call[t].st \in {"new", "waitperm", "await"}}
Dropping(s) == {c \in Callers : s.call[c].st \in {"dropA", "dropB"}}

MInit == S = InitS /\ l = 1 /\ scn = 0 /\ live = FALSE /\ total = 0 /\ good = 0

MStep ==
  /\ l <= Len(TraceRec)
  /\ l' = l + 1
  /\ LET e == TraceRec[l] IN
     /\ scn' = e.scn
     /\ IF e.ev = "Reset" THEN
          /\ S' = [InitS EXCEPT !.open = e.open, !.credits = e.credits]
          /\ live' = TRUE /\ total' = total + 1 /\ good' = good
        ELSE IF e.ev = "EndScenario" THEN
          /\ good' = IF live THEN good + 1 ELSE good
          /\ live' = FALSE /\ UNCHANGED <<S, total>>
        ELSE IF ~live THEN UNCHANGED <<S, live, total, good>>
        ELSE IF e.ev \in {"Panic", "Spin"} THEN
          \* the harness stopped modelling here as well (panics and spins are judged by the observers)
          /\ live' = FALSE /\ UNCHANGED <<S, total>> /\ good' = good + 1
        ELSE
          /\ UNCHANGED <<total, good>>
          /\ CASE e.ev = "CallStart" /\ e.c \in Callers ->
                    /\ S' = F_CallStart(S, e.c, e.dl)
                    /\ live' = Say(S.call[e.c].st = "idle", "call number reused", e.c)
               [] e.ev = "CallStart" /\ e.c \notin Callers ->
                    \* a burst scenario with more calls than this replay is configured for: not judged here
                    /\ UNCHANGED S /\ live' = FALSE
               [] e.ev = "PollEnd" /\ e.who = "d" ->
                    LET s1 == DRun(D_Begin(S), 3000)
                        s2 == IF s1.dstate = "done" THEN DropDispatch(s1) ELSE s1
                    IN /\ S' = s2
                       /\ live' = /\ Say(S.dstate = "live", "dispatch polled after it ended", 0)
                                  /\ Say(s1.ret = e.res, "dispatch poll result", <<s1.ret, e.res>>)
                                  /\ Say(Cardinality(s1.infl) = e.infl, "in-flight count", <<Cardinality(s1.infl), e.infl>>)
                                  /\ Say(Cardinality(s1.dq) = e.timers, "timer count", <<Cardinality(s1.dq), e.timers>>)
                                  /\ Say(e.res # "pending" \/ ((D \in s2.woken) <=> e.woken), "dispatch self-wake",
                                         <<D \in s2.woken, e.woken>>)
               [] e.ev = "PollEnd" /\ e.who # "d" ->
                    LET c == WhoNum(e.who)
                        s1 == C_Poll(S, c)
                    IN /\ S' = s1
                       /\ live' = /\ Say((s1.call[c].st = "done") <=> (e.res = "ready"), "call poll result",
                                         <<c, s1.call[c].st, e.res>>)
                                  /\ Say(e.res # "pending" \/ ((c \in s1.woken) <=> e.woken), "call self-wake", c)
               [] e.ev = "CallResolved" ->
                    /\ UNCHANGED S
                    /\ live' = /\ Say(S.o.call[e.c].kind = e.kind, "call outcome", <<e.c, S.o.call[e.c].kind, e.kind>>)
                               /\ Say(e.kind \notin {"ok", "server"} \/ S.o.call[e.c].body = e.body, "call body",
                                      <<e.c, S.o.call[e.c].body, e.body>>)
               [] e.ev = "PeerPush" -> S' = F_PeerSend(S, e.item.id, e.item.ok) /\ live' = live
               [] e.ev = "PeerEof" -> S' = F_PeerEof(S) /\ live' = live
               [] e.ev = "Tick" -> S' = F_Tick(S, e.d) /\ live' = live
               [] e.ev = "Env" ->
                    /\ live' = live
                    /\ S' = CASE e.what = "SinkOpen" -> F_SinkOpen(S)
                              [] e.what = "SinkBlock" -> F_SinkBlock(S)
                              [] e.what = "SinkCredit" -> F_SinkCredit(S)
                              [] e.what = "Arm" -> F_Arm(S, e.op, e.k)
                              [] OTHER -> S
               [] e.ev = "Handles" -> S' = F_HandleCount(S, e.left) /\ live' = live
               [] e.ev = "DropEnter" ->
                    /\ S' = Ab_Enter(S, e.c)
                    /\ live' = Say(S.call[e.c].st \in {"new", "waitperm", "await"}, "drop of a call that is not pending", e.c)
               [] e.ev = "DropPoint" /\ e.at = "mid" ->
                    LET cs == {c \in Callers : S.call[c].st = "dropA"} IN
                    /\ live' = Say(Cardinality(cs) = 1, "guard drop window without a call being dropped", cs)
                    /\ S' = IF Cardinality(cs) = 1 THEN Ab_Close(S, CHOOSE c \in cs : TRUE) ELSE S
               [] e.ev = "CallAbandon" ->
                    \* the drop has returned: whatever part of it the hook did not split runs now
                    /\ live' = live
                    /\ S' = CASE S.call[e.c].st = "dropA" -> Ab_Cancel(Ab_Close(S, e.c), e.c)
                              [] S.call[e.c].st = "dropB" -> Ab_Cancel(S, e.c)
                              [] OTHER -> S
               [] e.ev \in {"Settled", "Quiescent"} ->
                    /\ UNCHANGED S
                    /\ live' = /\ Say(Len(S.inq) = e.inq, "unread replies at a settle point", <<Len(S.inq), e.inq>>)
                               /\ Say((S.dstate = "live") = e.dispatch_alive, "dispatch alive", <<S.dstate, e.dispatch_alive>>)
                               /\ Say(S.dstate # "live" \/ (Cardinality(S.infl) = e.infl /\ Cardinality(S.dq) = e.timers),
                                      "counts at a settle point", <<Cardinality(S.infl), e.infl, Cardinality(S.dq), e.timers>>)
                               /\ Say(Dropping(S) # {} \/ Alive(S) = {}, "a task the code left asleep is woken in the specification", Alive(S))
               [] OTHER -> UNCHANGED <<S, live>>

MSpec == MInit /\ [][MStep]_mvars
MDone == l = Len(TraceRec) + 1 => PrintT(<<"MECHDONE", total, good>>)
=============================================================================
