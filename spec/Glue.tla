-------------------------------- MODULE Glue --------------------------------
(***************************************************************************)
(* The naming pipeline of #[tarpc::service] (plugins/src/lib.rs):          *)
(* method identifier -> (unraw) -> snake_to_camel -> request/response enum *)
(* variant; reserved method names; request name "<Service>.<method>".      *)
(* Names are sequences of one-character strings.  snake_to_camel is        *)
(* transcribed character by character.  TLC enumerates service shapes      *)
(* (method names x argument counts/types x return types) and predicts for  *)
(* each whether the macro accepts it and which variants it generates; the  *)
(* checker turns every enumerated shape into a real service definition.    *)
(***************************************************************************)
EXTENDS Naturals, Sequences, FiniteSets, TLC

CONSTANTS MaxMethods

Chars == {"a","b","e","f","n","r","s","v","w","A","B","E","F","N","R","S","V","W","1"}
Upper == [c \in Chars |->
            CASE c = "a" -> "A" [] c = "b" -> "B" [] c = "e" -> "E" [] c = "f" -> "F" [] c = "n" -> "N"
              [] c = "r" -> "R" [] c = "s" -> "S" [] c = "v" -> "V" [] c = "w" -> "W" [] OTHER -> c]
Lower == [c \in Chars |->
            CASE c = "A" -> "a" [] c = "B" -> "b" [] c = "E" -> "e" [] c = "F" -> "f" [] c = "N" -> "n"
              [] c = "R" -> "r" [] c = "S" -> "s" [] c = "V" -> "v" [] c = "W" -> "w" [] OTHER -> c]

(* plugins/src/lib.rs: fn snake_to_camel *)
RECURSIVE S2C(_, _)
S2C(s, lastUnderscore) ==
  IF s = <<>> THEN <<>>
  ELSE LET c == Head(s) IN
       IF c = "_" THEN S2C(Tail(s), TRUE)
       ELSE IF lastUnderscore THEN <<Upper[c]>> \o S2C(Tail(s), FALSE)
       ELSE <<Lower[c]>> \o S2C(Tail(s), FALSE)
SnakeToCamel(s) == S2C(s, TRUE)

Names == { <<"a">>, <<"b">>, <<"a","b">>, <<"a","_","b">>, <<"a","_","_","b">>, <<"_","a","_","b">>, <<"a","_","b","_">>,
           <<"a","B">>, <<"A","b">>, <<"a","1">>, <<"n","e","w">>, <<"s","e","r","v","e">>, <<"f","n">> }
RawOnly == { <<"f","n">> }            \* keywords: only usable as r#fn
Reserved == { <<"n","e","w">>, <<"s","e","r","v","e">> }

(* argty "ctx": a single argument that is itself called `ctx` and is a tarpc Context - the name the generated  *)
(* glue uses for the request's context; "pattern": one argument written as a tuple pattern; "selfarg": a      *)
(* method that takes `self` first - both refused by the macro's parser                                        *)
(* gate: the rpc carries #[cfg(..)]: "on" = a predicate that holds (the rpc exists), "off" = one that does not (the rpc  *)
(* and everything generated for it vanish); whatever is gated, every remaining rpc must still be paired with itself       *)
Method == [name : Names, nargs : 0..2, argty : {"same", "diff", "ctx", "pattern", "selfarg"}, ret : {"unit", "int", "str"},
           gate : {"none", "on", "off"}]
(* the macro's own arguments: none, derive = [..], derive_serde = false (deprecated form), both at once      *)
(* (refused), derive twice (refused)                                                                          *)
Attrs == {"none", "derive", "serde_false", "both", "twice"}

VARIABLES svc, attr
Init == svc = <<>> /\ attr \in Attrs
Next == /\ Len(svc) < MaxMethods
        /\ \E m \in Method :
             /\ (m.nargs = 0 => m.argty = "same") /\ (m.nargs = 1 => m.argty \in {"same", "ctx", "selfarg"})
             /\ (m.nargs = 2 => m.argty \in {"same", "diff", "pattern"})
             /\ \A i \in DOMAIN svc : svc[i].name # m.name            \* Rust itself rejects duplicate fn names
             \* gated rpcs: plain shapes only, and no variant clash involving them (what rustc says then depends on the gate)
             /\ (m.gate # "none" => m.argty = "same" /\ m.nargs <= 1 /\ m.name \notin Reserved)
             /\ (m.gate # "none" => \A i \in DOMAIN svc : svc[i].gate = "none")      \* at most one gated rpc per service
             /\ \A i \in DOMAIN svc : (m.gate # "none" \/ svc[i].gate # "none") => SnakeToCamel(svc[i].name) # SnakeToCamel(m.name)
             /\ svc' = Append(svc, m)
        /\ UNCHANGED attr
Spec == Init /\ [][Next]_<<svc, attr>>

Variant(m) == SnakeToCamel(m.name)
Accepted == /\ \A i \in DOMAIN svc : svc[i].name \notin Reserved
            /\ \A i \in DOMAIN svc : svc[i].argty \notin {"ctx", "pattern", "selfarg"}   \* `ctx` would shadow the glue's own context
            /\ attr \notin {"both", "twice"}
            /\ \A i, j \in DOMAIN svc : i # j => Variant(svc[i]) # Variant(svc[j])

(* sanity laws of the transcription: a variant has no underscore and starts upper-case *)
Law_S2C == \A n \in Names :
             LET v == SnakeToCamel(n) IN
             /\ \A i \in DOMAIN v : v[i] # "_"
             /\ (v # <<>> => v[1] = Upper[v[1]])
=============================================================================
