---------------------------- MODULE Trace_Server ----------------------------
(***************************************************************************)
(* Trace driver for the server observer: replays an ndjson trace recorded  *)
(* from the real server channel (harness family `server`) through          *)
(* ObsServer, one fully logged event per step.  Violations are reported    *)
(* together with the known-finding signatures that match them.             *)
(***************************************************************************)
EXTENDS Naturals, Integers, Sequences, FiniteSets, TLC, Json, IOUtils, ObsServer

Rec == ndJsonDeserialize(IOEnv.TRACE)

VARIABLES l, scn, o
tvars == <<l, scn, o>>

TInit == l = 1 /\ scn = 0 /\ o = SInit(-1, 1)

Apply(e, s) ==
  CASE e.ev = "WireIn"       -> IF e.item.kind = "req" THEN SReadReq(s, e.item.id, e.item.dl)
                                ELSE IF e.item.kind = "cancel" THEN SReadCancel(s, e.item.id) ELSE s
    [] e.ev = "WireInEof"    -> SEofSeen(s)
    [] e.ev = "PeerEof"      -> SEofPushed(s)
    [] e.ev = "Yielded"      -> SYielded(s, e.h, e.id, e.dl)
    [] e.ev = "WireOut"      -> SResponse(s, e.item.id, e.item.ok, e.item.h, e.item.throttle)
    [] e.ev = "HandlerStart" -> SHandlerStart(s, e.h)
    [] e.ev = "HandlerPoll"  -> SHandlerPoll(s, e.h)
    [] e.ev = "HandlerDone"  -> SHandlerDone(s, e.h)
    [] e.ev = "HandlerDropped" -> SHandlerDropped(s, e.h)
    [] e.ev = "HandlerExit"  -> SHandlerExit(s, e.h)
    [] e.ev = "AppDropHandler" -> SAppDrop(s, e.h)
    [] e.ev = "AppDropStream"  -> SStreamGone(s, "dropped")
    [] e.ev = "StreamErr"    -> SStreamGone(s, e.kind)
    [] e.ev = "StreamEnd"    -> SStreamGone(s, "end")
    [] e.ev = "Fault"        -> IF e.op = "send" THEN SFaultSend(s, e.item.id) ELSE SFault(s, e.op)
    [] e.ev = "Panic"        -> SPanic(s)
    [] e.ev = "Spin"         -> SSpin(s)
    [] e.ev = "SinkOp"       -> SSinkOp(s, e.op, e.res, e.unflushed)
    [] e.ev = "PollStart"    -> IF e.who = "s" THEN SPollStart(s) ELSE s
    [] e.ev = "PollEnd"      -> IF e.who = "s" THEN SPollEnd(s, e.res, e.infl, e.timers) ELSE s
    [] e.ev = "Settled"      -> SPoint(s, "settled", e.inq, e.writable, e.alive, e.infl, e.timers)
    [] e.ev = "Quiescent"    -> SPoint(s, "quiescent", e.inq, e.writable, e.alive, e.infl, e.timers)
    [] OTHER                 -> s

Step ==
  /\ l <= Len(Rec)
  /\ l' = l + 1
  /\ LET e == Rec[l] IN
     /\ scn' = e.scn
     /\ o' = IF e.ev = "Reset" THEN SInit(e.limit, e.respBuf)
             ELSE Apply(e, STick(o, e.t))

TSpec == TInit /\ [][Step]_tvars

Sigs(p) == {b[3] : b \in BadOf(o, p)} \ {""}
(* report with signatures only if EVERY recorded violation of the property carries one *)
SigsIfAll(p) == IF \A b \in BadOf(o, p) : b[3] # "" THEN Sigs(p) ELSE {}
Report(name, ok, sigs) == ok \/ PrintT(<<"REPORT", name, scn, l - 1, sigs>>)

Verdict_C04 == Report("Inv_C04", Inv_C04(o), SigsIfAll("C04"))
Verdict_C06 == Report("Inv_C06", Inv_C06(o), SigsIfAll("C06"))
Verdict_C08 == Report("Inv_C08", Inv_C08(o), SigsIfAll("C08"))
Verdict_C12 == Report("Inv_C12", Inv_C12(o), SigsIfAll("C12"))
Verdict_C09 == Report("Inv_C09s", Inv_C09s(o), {})
Verdict_C10 == Report("Inv_C10s", Inv_C10s(o), {})
Verdict_C11 == Report("Inv_C11s", Inv_C11s(o), IF BadOf(o, "C11") # {} THEN SigsIfAll("C11") ELSE {})
Verdict_C14 == Report("Inv_C14s", Inv_C14s(o), {})
Verdict_C02 == Report("Inv_C02s", Inv_C02s(o), {})
Verdict_All == Verdict_C04 /\ Verdict_C06 /\ Verdict_C08 /\ Verdict_C12 /\ Verdict_C09 /\ Verdict_C10
               /\ Verdict_C11 /\ Verdict_C14 /\ Verdict_C02

Accepted == l = Len(Rec) + 1 => PrintT(<<"ACCEPTED", Len(Rec)>>)
=============================================================================
