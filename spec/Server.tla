------------------------------- MODULE Server -------------------------------
(***************************************************************************)
(* Mechanism model of one tarpc server channel:                            *)
(*   transport peer -> BaseChannel [-> MaxRequests] -> Requests            *)
(*   -> InFlightRequest::execute(handler)                                  *)
(* tarpc/src/server.rs, server/in_flight_requests.rs,                      *)
(* server/limits/requests_per_channel.rs.                                  *)
(*                                                                         *)
(* Same style as Client.tla: the state is one record S, code is modelled   *)
(* by pure operators S -> S named after it, the request stream's poll is a *)
(* program-counter machine (SStep) run atomically (AtomicPolls) or one     *)
(* micro-step per action.  Handlers are tasks of their own (H_Poll).       *)
(* Primitives: bounded mpsc pending_responses with FIFO permit waiters,    *)
(* unbounded guard-cancellation queue, DelayQueue, Abortable, wakers.      *)
(*                                                                         *)
(* Known deviations of the code from the listed properties are modelled as *)
(* the code behaves (F6: a throttled channel whose sink is not ready       *)
(* returns before expirations/cancellations are processed; F7: the limit   *)
(* is compared before the inner poll that may release a request and then   *)
(* read one; F8: a buffered response of an ended incarnation answers a     *)
(* later request with the same id); the observer tags them with their      *)
(* signatures and the model invariants are checked in ExceptKnown form.    *)
(***************************************************************************)
EXTENDS Naturals, Integers, Sequences, FiniteSets, TLC, ObsServer

CONSTANTS
  Ids,           \* request ids the peer may use
  MaxInc,        \* bound on handler incarnations (= bound on requests the peer sends)
  Limit,         \* -1 = no MaxRequests wrapper, else the limit L
  RespBuf,       \* server::Config::pending_response_buffer (>= 1)
  Deadlines,     \* absolute deadlines a request may carry
  MaxTime,
  CancelBudget,  \* number of Cancel messages the peer may send
  SinkMode, Cap,
  FaultOps,
  AllowEof, AllowAppDrop, AllowStreamDrop,
  FreshIdsOnly,  \* the peer never reuses an id
  AtomicPolls,
  ExportSched

VARIABLE S

T == 0                       \* task id of the request stream; handler tasks are 1..MaxInc
NoFault == "none"
NoSleep == -1                \* the DelayQueue holds no Sleep

HInit == [st |-> "none", id |-> -1, dl |-> 0, aborted |-> FALSE, abW |-> FALSE, complete |-> FALSE,
          inW |-> FALSE, armed |-> FALSE, finished |-> FALSE]

InitS ==
      [ now |-> 0,
        inq |-> <<>>, eof |-> FALSE, rdW |-> FALSE, rdDone |-> FALSE,
        reqLeft |-> MaxInc, cancelLeft |-> CancelBudget, usedIds |-> {},
        sinfl |-> {},                 \* <<id, h>> tracked by BaseChannel
        sdq |-> {}, dqW |-> FALSE, dqS |-> FALSE, dly |-> NoSleep, wnow |-> 0, dqx |-> <<>>, dqn |-> 0,
        gcanc |-> <<>>, gcW |-> FALSE,
        resp |-> <<>>, rwait |-> <<>>, rgrant |-> {}, rsW |-> FALSE, rxGone |-> FALSE,
        h |-> [i \in 1..MaxInc |-> HInit], nextInc |-> 0,
        pc |-> "idle", rdres |-> "none", wrres |-> "none", ret |-> "none", held |-> 0,
        mpc |-> "none",               \* where MaxRequests::poll_next resumes after the inner poll
        ensFlushed |-> FALSE,
        sstate |-> "live",            \* "live" | "gone"
        buffered |-> 0, open |-> TRUE, credits |-> 0, wrW |-> FALSE, flW |-> FALSE,
        fault |-> NoFault, faultK |-> 1, faultsLeft |-> 1, sinkLeft |-> 2,
        woken |-> {T},
        o |-> SInit(Limit, RespBuf),
        tags |-> {}, sched |-> <<>> ]
Init == S = InitS

(* ------------------------------------------------------------------ helpers *)
Wake(s, t) == [s EXCEPT !.woken = @ \cup {t}]
WakeIf(s, c, t) == IF c THEN Wake(s, t) ELSE s
Ob(s, x) == [s EXCEPT !.o = x]
Rec(s, a) == IF ExportSched THEN [s EXCEPT !.sched = Append(@, a)] ELSE s
Tag(s, t) == IF ExportSched THEN [s EXCEPT !.tags = @ \cup {t}] ELSE s
Goto(s, p) == [s EXCEPT !.pc = p]
ChanIds(s) == {p[1] : p \in s.sinfl}
HandlerOf(s, id) == (CHOOSE p \in s.sinfl : p[1] = id)[2]
Max(a, b) == IF a > b THEN a ELSE b
(* a fault armed at the k-th next use of an operation: every use that does not fail counts down *)
SinkLog(s, op, res) ==
  LET s1 == IF s.fault = op /\ res # "err" THEN [s EXCEPT !.faultK = @ - 1] ELSE s
  IN Ob(s1, SSinkOp(s1.o, op, res, s1.buffered))
ReadyNow(s) == CASE SinkMode = "always" -> TRUE [] SinkMode = "coupled" -> s.buffered < Cap [] OTHER -> s.credits > 0
FlushNow(s) == CASE SinkMode = "coupled" -> s.open \/ s.buffered = 0 [] OTHER -> TRUE
FaultHits(s, op) == s.fault = op /\ s.faultK <= 1
ClearFault(s) == [s EXCEPT !.fault = NoFault]

(* DelayQueue (tokio-util 0.7), as in Client.tla: entries sdq, stored waker dqW, one Sleep (deadline dly, *)
(* waker registered dqS)                                                                                   *)
(* entries are <<id, deadline, insertion number>>; dqx is the `expired` stack (see Client.tla)              *)
EarliestIn(q) == IF q = {} THEN NoSleep ELSE CHOOSE t \in {p[2] : p \in q} : \A u \in {p[2] : p \in q} : t <= u
InStack(s, id) == \E i \in DOMAIN s.dqx : s.dqx[i] = id
Wheel(s) == {p \in s.sdq : ~InStack(s, p[1])}
SleepReset(s, at) ==
  LET s1 == [s EXCEPT !.dly = at] IN
  IF at <= s.now /\ s.dqS THEN [Wake(s1, T) EXCEPT !.dqS = FALSE] ELSE s1
SleepNew(s, at) == [s EXCEPT !.dly = at, !.dqS = FALSE]
DqInsert(s, id, at) ==
  LET s1 == [s EXCEPT !.sdq = @ \cup {<<id, at, s.dqn + 1>>}, !.dqn = @ + 1,
                      !.dqx = IF at <= s.wnow THEN <<id>> \o @ ELSE @] IN
  IF s.dly = NoSleep \/ s.dly > at THEN
    LET s2 == IF s.dqW THEN [Wake(s1, T) EXCEPT !.dqW = FALSE] ELSE s1 IN
    IF s.dly = NoSleep THEN SleepNew(s2, at) ELSE SleepReset(s2, at)
  ELSE s1
DqRemove(s, id) ==
  LET prev == EarliestIn(Wheel(s))
      s1 == [s EXCEPT !.sdq = {p \in @ : p[1] # id}, !.dqx = SelectSeq(@, LAMBDA x : x # id)]
      next == EarliestIn(Wheel(s1))
      s2 == IF prev = next THEN s1
            ELSE IF next = NoSleep THEN [s1 EXCEPT !.dly = NoSleep, !.dqS = FALSE]
            ELSE IF s.dly # NoSleep THEN SleepReset(s1, next) ELSE SleepNew(s1, next)
  IN IF s1.sdq = {} /\ s.sdq # {} /\ s2.dqW THEN [Wake(s2, T) EXCEPT !.dqW = FALSE] ELSE s2

(* in_flight_requests.{remove_request, cancel_request}: untrack id, optionally abort its handler *)
ChanUntrack(s, id, abort) ==
  IF id \in ChanIds(s) THEN
    LET hh == HandlerOf(s, id)
        s1 == DqRemove([s EXCEPT !.sinfl = {p \in @ : p[1] # id}], id)
    IN IF abort /\ hh # 0 THEN WakeIf([s1 EXCEPT !.h[hh].aborted = TRUE, !.h[hh].abW = FALSE], s.h[hh].abW, hh) ELSE s1
  ELSE s

(* transport.start_send of a response, through BaseChannel::start_send *)
ChanStartSend(s, id, hh, throttle, onErr) ==
  IF id \in ChanIds(s) THEN
    LET s1 == ChanUntrack(s, id, FALSE) IN
    IF FaultHits(s1, "send") THEN
      LET s2 == SinkLog(ClearFault(s1), "send", "err") IN
      [Ob(s2, SFaultSend(s2.o, id)) EXCEPT !.ret = "err"]
    ELSE
      LET s2 == [s1 EXCEPT !.buffered = @ + 1, !.credits = IF SinkMode = "independent" THEN @ - 1 ELSE @]
          s3 == SinkLog(s2, "send", "ok")
      IN Ob(s3, SResponse(s3.o, id, ~throttle, hh, throttle))
  ELSE Tag(s, "response-dropped")        \* not tracked any more: the response is dropped

StreamErr(s, kind) ==      \* the stream yields Err(kind); Requests::execute stops and the stream is dropped
  [s EXCEPT !.pc = "idle", !.ret = kind]

(* ------------------------------------------------------------------ Requests::poll_next as micro-steps *)
S_Begin(s) ==
  LET s1 == [s EXCEPT !.woken = @ \ {T}, !.pc = "loop", !.ret = "none"] IN
  Ob(s1, SPollStart(s1.o))

S_End(s, res) ==
  LET s1 == Ob(s, SPollEnd(s.o, res, Cardinality(s.sinfl), Cardinality(s.sdq))) IN
  [s1 EXCEPT !.pc = "idle", !.ret = res]

S_Loop(s) == Goto([s EXCEPT !.rdres = "none", !.wrres = "none", !.held = 0],
                  IF Limit >= 0 THEN "mcheck" ELSE "bcanc")

(* MaxRequests::poll_next *)
S_MCheck(s) ==
  IF Cardinality(s.sinfl) >= Limit THEN Goto([s EXCEPT !.mpc = "throttle"], "mready")
  ELSE Goto([s EXCEPT !.mpc = "pass"], "bcanc")

S_MReady(s) ==           \* ready!(inner.poll_ready(cx)?)
  IF FaultHits(s, "ready") THEN
    LET s1 == SinkLog(ClearFault(s), "ready", "err") IN StreamErr(Ob(s1, SFault(s1.o, "ready")), "ready")
  ELSE IF ReadyNow(s) THEN Goto(SinkLog(s, "ready", "ok"), "bcanc")
  ELSE \* F6: the poll returns here, before cancellations, expirations and the transport are looked at
       Goto([SinkLog([s EXCEPT !.wrW = TRUE], "ready", "pending") EXCEPT !.rdres = "pending"], "pwrite")

(* BaseChannel::poll_next: one loop iteration = guard cancellations, expirations, transport *)
S_BCanc(s) ==
  IF s.gcanc # <<>> THEN
    Goto([ChanUntrack([s EXCEPT !.gcanc = Tail(@)], Head(s.gcanc), FALSE) EXCEPT !.held = 1], "bexp")
  ELSE Goto([s EXCEPT !.gcW = TRUE], "bexp")

S_BExp(s) ==
  LET Expire(t, id) ==
        LET t1 == [t EXCEPT !.sdq = {p \in @ : p[1] # id}]
            t2 == IF id \in ChanIds(t1) /\ HandlerOf(t1, id) # 0
                    THEN LET hh == HandlerOf(t1, id) IN
                         WakeIf([t1 EXCEPT !.sinfl = {q \in @ : q[1] # id}, !.h[hh].aborted = TRUE, !.h[hh].abW = FALSE],
                                t1.h[hh].abW, hh)
                    ELSE t1
        IN Goto(Tag([t2 EXCEPT !.held = 1], "expired"), "btr")
  IN
  IF s.sdq = {} THEN Goto(s, "btr")                         \* workaround branch: Ready(None)
  ELSE LET s0 == [s EXCEPT !.dqW = TRUE] IN
       IF s0.dqx # <<>> THEN Expire([s0 EXCEPT !.dqx = Tail(@)], Head(s0.dqx))
       ELSE IF s0.dly = NoSleep THEN Goto(s0, "btr")
       ELSE IF s0.dly > s0.now THEN Goto([s0 EXCEPT !.dqS = TRUE, !.held = IF s.held = 1 THEN 1 ELSE 2], "btr")   \* 2 = Pending seen
       ELSE
         LET due == {p \in Wheel(s0) : p[2] <= s0.dly}
             s1 == [s0 EXCEPT !.wnow = s0.dly] IN
         IF due # {} THEN
            \* entries of one wheel slot come out last-inserted first
            LET p == CHOOSE x \in due : \A y \in due : x[2] < y[2] \/ (x[2] = y[2] /\ x[3] >= y[3])
                rest == Wheel(s1) \ {p}
            IN Expire([s1 EXCEPT !.dly = EarliestIn(rest), !.dqS = FALSE], p[1])
         ELSE Goto([s1 EXCEPT !.dly = EarliestIn(Wheel(s1)), !.dqS = FALSE], "bexp")

S_BTr(s) ==
  IF s.rdDone THEN Goto(s, "bcomb0")
  ELSE IF FaultHits(s, "next") THEN
    LET s1 == SinkLog(ClearFault(s), "next", "err") IN StreamErr(Ob(s1, SFault(s1.o, "next")), "read")
  ELSE IF s.inq # <<>> THEN
    LET m == Head(s.inq)
        s1 == SinkLog([s EXCEPT !.inq = Tail(@)], "next", "item")
    IN IF m[1] = "req" THEN
         LET s2 == Ob(s1, SReadReq(s1.o, m[2], m[3])) IN
         IF m[2] \in ChanIds(s2) THEN Goto(Tag([s2 EXCEPT !.held = 0], "duplicate"), "bcanc")   \* ignored: continue (a new loop turn)
         ELSE IF s2.mpc = "throttle" THEN
           \* start_request tracks it; MaxRequests answers it with a WouldBlock error instead of yielding it
           LET s3 == DqInsert([s2 EXCEPT !.sinfl = @ \cup {<<m[2], 0>>}], m[2], Max(m[3], s2.now))
               s5 == ChanStartSend(s3, m[2], 0, TRUE, "write")
           IN IF s5.ret = "err" THEN StreamErr(s5, "write") ELSE Goto(Tag(s5, "throttled"), "mcheck")
         ELSE \* start_request: track, arm the timer, hand out
           LET hh == s2.nextInc + 1
               s3 == [s2 EXCEPT !.nextInc = hh, !.sinfl = @ \cup {<<m[2], hh>>},
                                !.h[hh] = [HInit EXCEPT !.st = "pending-yield", !.id = m[2], !.dl = m[3]]]
               s4 == DqInsert(s3, m[2], Max(m[3], s3.now))
           IN Goto([s4 EXCEPT !.rdres = "item", !.held = hh], "pwrite")
       ELSE \* Cancel
         LET s2 == Ob(s1, SReadCancel(s1.o, m[2])) IN
         Goto([ChanUntrack(s2, m[2], TRUE) EXCEPT !.held = 0], "bcanc")     \* continue (a new loop turn)
  ELSE IF s.eof THEN
    LET s1 == SinkLog(s, "next", "eof") IN
    Goto([Ob(s1, SEofSeen(s1.o)) EXCEPT !.rdDone = TRUE], "bcomb0")
  ELSE Goto([SinkLog(s, "next", "pending") EXCEPT !.rdW = TRUE, !.held = IF s.held = 1 THEN 1 ELSE 2], "bcomb")

(* combine: some source was Ready -> loop; all Closed -> None; else Pending.   *)
(* held: 0 = everything Closed so far, 1 = some Ready, 2 = some Pending        *)
S_BComb(s) ==
  IF s.held = 1 THEN Goto([s EXCEPT !.held = 0], "bcanc")
  ELSE IF s.mpc = "throttle" THEN Goto([s EXCEPT !.rdres = "pending"], "pwrite")    \* ready!(inner.poll_next)
  ELSE Goto([s EXCEPT !.rdres = "pending"], "pwrite")
S_BComb0(s) ==            \* the transport is closed
  IF s.held = 1 THEN Goto([s EXCEPT !.held = 0], "bcanc")
  ELSE IF s.held = 2 THEN Goto([s EXCEPT !.rdres = "pending"], "pwrite")
  ELSE Goto([s EXCEPT !.rdres = "closed"], "pwrite")

(* Requests::pump_write *)
S_PWrite(s) == Goto([s EXCEPT !.ensFlushed = FALSE], "ensready")

S_EnsReady(s) ==
  IF FaultHits(s, "ready") THEN
    LET s1 == SinkLog(ClearFault(s), "ready", "err") IN StreamErr(Ob(s1, SFault(s1.o, "ready")), "ready")
  ELSE IF ReadyNow(s) THEN Goto(SinkLog(s, "ready", "ok"), "precv")
  ELSE LET s1 == SinkLog([s EXCEPT !.wrW = TRUE], "ready", "pending") IN
       IF s.ensFlushed THEN Goto(s1, "pflush")           \* poll_next_response is Pending: the Pending arm of pump_write
       ELSE Goto(s1, "ensflush")

S_EnsFlush(s) ==
  IF FaultHits(s, "flush") THEN
    LET s1 == SinkLog(ClearFault(s), "flush", "err") IN StreamErr(Ob(s1, SFault(s1.o, "flush")), "flush")
  ELSE IF FlushNow(s) THEN
    Goto(SinkLog(WakeIf([s EXCEPT !.buffered = 0, !.ensFlushed = TRUE, !.wrW = IF s.buffered > 0 THEN FALSE ELSE @],
                        s.buffered > 0 /\ s.wrW, T), "flush", "ok"), "ensready")
  ELSE Goto(SinkLog([s EXCEPT !.flW = TRUE], "flush", "pending"), "pflush")

ReleaseRespPermit(s) ==
  IF s.rwait # <<>> THEN
    LET hh == Head(s.rwait) IN Wake([s EXCEPT !.rwait = Tail(@), !.rgrant = @ \cup {hh}], hh)
  ELSE s

S_PRecv(s) ==
  IF s.resp # <<>> THEN
    LET r == Head(s.resp)
        s1 == ReleaseRespPermit([s EXCEPT !.resp = Tail(@)])
        s2 == ChanStartSend(s1, r[1], r[2], FALSE, "write")
    IN IF s2.ret = "err" THEN StreamErr(s2, "write") ELSE Goto([s2 EXCEPT !.wrres = "some"], "match")
  ELSE Goto([s EXCEPT !.rsW = TRUE], "pflush")

(* the Pending arm of pump_write (no response could be taken: none queued, or the sink is not writeable):  *)
(* flush, then decide whether the write half may close                                                     *)
S_PFlush(s) ==
  IF FaultHits(s, "flush") THEN
    LET s2 == SinkLog(ClearFault(s), "flush", "err") IN StreamErr(Ob(s2, SFault(s2.o, "flush")), "flush")
  ELSE IF FlushNow(s) THEN
    LET s2 == SinkLog(WakeIf([s EXCEPT !.buffered = 0, !.wrW = IF s.buffered > 0 THEN FALSE ELSE @],
                             s.buffered > 0 /\ s.wrW, T), "flush", "ok")
    IN Goto([s2 EXCEPT !.wrres = IF s.rdres = "closed" /\ s2.sinfl = {} THEN "closed" ELSE "pending"], "match")
  ELSE Goto([SinkLog([s EXCEPT !.flW = TRUE], "flush", "pending") EXCEPT !.wrres = "pending"], "match")

S_Match(s) ==
  IF s.rdres = "closed" /\ s.wrres = "closed" THEN S_End(s, "end")
  ELSE IF s.rdres = "item" THEN
    LET hh == s.held
        s1 == [s EXCEPT !.h[hh].st = "offered", !.h[hh].armed = TRUE, !.woken = @ \cup {hh, T}]
        s2 == Ob(s1, SYielded(s1.o, hh, s1.h[hh].id, s1.h[hh].dl))
    IN S_End(s2, "item")
  ELSE IF s.wrres = "some" THEN Goto(s, "loop")
  ELSE S_End(s, "pending")

SStep(s) ==
  CASE s.pc = "loop"     -> S_Loop(s)
    [] s.pc = "mcheck"   -> S_MCheck(s)
    [] s.pc = "mready"   -> S_MReady(s)
    [] s.pc = "bcanc"    -> S_BCanc(s)
    [] s.pc = "bexp"     -> S_BExp(s)
    [] s.pc = "btr"      -> S_BTr(s)
    [] s.pc = "bcomb"    -> S_BComb(s)
    [] s.pc = "bcomb0"   -> S_BComb0(s)
    [] s.pc = "pwrite"   -> S_PWrite(s)
    [] s.pc = "ensready" -> S_EnsReady(s)
    [] s.pc = "ensflush" -> S_EnsFlush(s)
    [] s.pc = "precv"    -> S_PRecv(s)
    [] s.pc = "pflush"   -> S_PFlush(s)
    [] s.pc = "match"    -> S_Match(s)

RECURSIVE SRun(_, _)
SRun(s, fuel) ==
  IF s.pc = "idle" THEN s
  ELSE IF fuel = 0 THEN [Ob(s, SSpin(s.o)) EXCEPT !.pc = "idle", !.ret = "spin"]
  ELSE SRun(SStep(s), fuel - 1)

(* the stream is dropped (after an error / the end, or by the application): the channel goes away *)
DropStream(s, how) ==
  LET tracked == {p[2] : p \in s.sinfl}
      s1 == [s EXCEPT !.sstate = "gone", !.rxGone = TRUE, !.sinfl = {}, !.sdq = {}, !.dly = NoSleep, !.dqS = FALSE, !.dqx = <<>>,
                      !.h = [i \in 1..MaxInc |-> IF i \in tracked THEN [@[i] EXCEPT !.aborted = TRUE, !.abW = FALSE] ELSE @[i]],
                      !.woken = ((@ \cup {i \in tracked : s.h[i].abW})
                                 \cup {i \in 1..MaxInc : \E k \in DOMAIN s.rwait : s.rwait[k] = i}) \ {T}]
  IN Ob(s1, SStreamGone(s1.o, how))

(* ------------------------------------------------------------------ handler tasks *)
H_Exit(s, hh) == Ob([s EXCEPT !.h[hh].st = "exited", !.h[hh].armed = FALSE, !.woken = @ \ {hh}], SHandlerExit(s.o, hh))
H_DropInner(s, hh) ==
  IF s.h[hh].st \in {"running"} THEN Ob(s, SHandlerDropped(s.o, hh)) ELSE s

(* response_tx.send(response).await *)
H_Send(s, hh) ==
  IF s.rxGone THEN H_Exit(s, hh)
  ELSE IF hh \in s.rgrant \/ (RespBuf - Len(s.resp) - Cardinality(s.rgrant) > 0 /\ s.rwait = <<>>) THEN
    LET s1 == [s EXCEPT !.rgrant = @ \ {hh}, !.resp = Append(@, <<s.h[hh].id, hh>>), !.rsW = FALSE] IN
    H_Exit(WakeIf(s1, s.rsW, T), hh)
  ELSE [s EXCEPT !.rwait = IF \E k \in DOMAIN @ : @[k] = hh THEN @ ELSE Append(@, hh), !.h[hh].st = "sending"]

H_Poll(s, hh) ==
  LET s0 == [s EXCEPT !.woken = @ \ {hh}] IN
  IF s.h[hh].aborted THEN
    \* Abortable: Aborted.  The inner future (if it exists) is dropped.
    LET s1 == IF s.h[hh].st = "sending"
                THEN LET g == hh \in s.rgrant
                         t == [s0 EXCEPT !.rwait = SelectSeq(@, LAMBDA x : x # hh), !.rgrant = @ \ {hh}]
                     IN IF g THEN ReleaseRespPermit(t) ELSE t
                ELSE s0
        s2 == IF s.h[hh].st = "running" THEN Ob(s1, SHandlerDropped(s1.o, hh)) ELSE s1
    IN H_Exit(s2, hh)
  ELSE CASE s.h[hh].st \in {"offered", "running"} ->
         LET s1 == IF s.h[hh].st = "offered" THEN Ob(s0, SHandlerStart(s0.o, hh)) ELSE s0
             s2 == Ob(s1, SHandlerPoll(s1.o, hh))
         IN IF s.h[hh].complete THEN
              LET s3 == Ob(s2, SHandlerDropped(SHandlerDone(s2.o, hh), hh)) IN
              H_Send([s3 EXCEPT !.h[hh].finished = TRUE, !.h[hh].st = "sending"], hh)
            ELSE [s2 EXCEPT !.h[hh].st = "running", !.h[hh].inW = TRUE, !.h[hh].abW = TRUE]
    [] s.h[hh].st = "sending" -> H_Send([s0 EXCEPT !.h[hh].abW = TRUE], hh)
    [] OTHER -> s0

(* the application drops the handler task: the response guard queues a cancellation *)
AppDrop(s, hh) ==
  LET s0 == Ob(s, SAppDrop(s.o, hh))
      s1 == IF s.h[hh].st = "sending"
              THEN LET g == hh \in s.rgrant
                       t == [s0 EXCEPT !.rwait = SelectSeq(@, LAMBDA x : x # hh), !.rgrant = @ \ {hh}]
                   IN IF g THEN ReleaseRespPermit(t) ELSE t
              ELSE s0
      s2 == IF s.h[hh].st \in {"running"} THEN Ob(s1, SHandlerDropped(s1.o, hh))
            ELSE s1
      s3 == IF s.h[hh].armed /\ ~s.rxGone
              THEN WakeIf([s2 EXCEPT !.gcanc = Append(@, s.h[hh].id), !.gcW = FALSE], s.gcW, T)
              ELSE s2
  IN [s3 EXCEPT !.h[hh].st = "gone", !.woken = @ \ {hh}]

(* ------------------------------------------------------------------ actions *)
Idle == S.pc = "idle"
EnvOK == Idle \/ ~AtomicPolls
Alive(hh) == S.h[hh].st \in {"offered", "running", "sending"}

(* environment steps and whole polls as operators on the state (used by the actions below and by Trace_ServerMech) *)
F_StreamPoll(s, fuel) ==
  LET s1 == SRun(S_Begin(s), fuel) IN
  IF s1.ret \in {"end", "read", "ready", "write", "flush", "spin"}
    THEN DropStream(IF s1.ret = "end" \/ s1.ret = "spin" THEN s1
                    ELSE Ob(s1, SPollEnd(s1.o, "err", Cardinality(s1.sinfl), Cardinality(s1.sdq))),
                    IF s1.ret = "spin" THEN "dropped" ELSE s1.ret)
    ELSE s1
F_Complete(s, hh) == WakeIf([s EXCEPT !.h[hh].complete = TRUE, !.h[hh].inW = FALSE], s.h[hh].inW, hh)
F_PeerReq(s, id, dl) ==
  WakeIf([s EXCEPT !.inq = Append(@, <<"req", id, dl>>), !.usedIds = @ \cup {id}, !.rdW = FALSE], s.rdW, T)
F_PeerCancel(s, id) == WakeIf([s EXCEPT !.inq = Append(@, <<"cancel", id, 0>>), !.rdW = FALSE], s.rdW, T)
F_PeerEof(s) == LET s1 == WakeIf([s EXCEPT !.eof = TRUE, !.rdW = FALSE], s.rdW, T) IN Ob(s1, SEofPushed(s1.o))
F_Tick(s, d) ==
  LET t == s.now + d
      fires == s.dqS /\ s.dly # NoSleep /\ s.dly <= t
      s1 == [s EXCEPT !.now = t, !.o.now = t, !.dqS = IF fires THEN FALSE ELSE @]
  IN WakeIf(s1, fires, T)
F_SinkOpen(s) == WakeIf([s EXCEPT !.open = TRUE, !.wrW = FALSE, !.flW = FALSE], s.wrW \/ s.flW, T)
F_SinkBlock(s) == [s EXCEPT !.open = FALSE]
F_SinkCredit(s) == WakeIf([s EXCEPT !.credits = @ + 1, !.wrW = FALSE], s.wrW, T)
F_Arm(s, op, k) ==
  LET s1 == [s EXCEPT !.fault = op, !.faultK = k]
  IN CASE op = "next"  -> WakeIf([s1 EXCEPT !.rdW = FALSE], s.rdW, T)
       [] op = "ready" -> WakeIf([s1 EXCEPT !.wrW = FALSE], s.wrW, T)
       [] op = "flush" -> WakeIf([s1 EXCEPT !.flW = FALSE], s.flW, T)
       [] OTHER -> s1

StreamPoll ==
  /\ S.sstate = "live" /\ Idle /\ T \in S.woken
  /\ IF AtomicPolls
       THEN LET s1 == SRun(S_Begin(S), 80)
                s2 == F_StreamPoll(S, 80)
            IN S' = Rec(s2, [a |-> "Poll", t |-> T,
                             res |-> IF s1.ret \in {"read", "ready", "write", "flush"} THEN "err" ELSE s1.ret,
                             infl |-> Cardinality(s1.sinfl),
                             woken |-> {t \in s2.woken : IF t = T THEN s2.sstate = "live"
                                                          ELSE s2.h[t].st \in {"offered", "running", "sending"}}])
       ELSE S' = S_Begin(S)

StreamStep ==
  /\ ~AtomicPolls /\ S.sstate = "live" /\ ~Idle
  /\ LET s1 == SStep(S) IN
     S' = IF s1.pc = "idle" /\ s1.ret \in {"end", "read", "ready", "write", "flush"}
            THEN DropStream(IF s1.ret = "end" THEN s1
                            ELSE Ob(s1, SPollEnd(s1.o, "err", Cardinality(s1.sinfl), Cardinality(s1.sdq))), s1.ret)
            ELSE s1

HandlerPoll(hh) ==
  /\ EnvOK /\ Alive(hh) /\ hh \in S.woken
  /\ LET s1 == H_Poll(S, hh) IN
     S' = Rec(s1, [a |-> "Poll", t |-> hh, res |-> IF s1.h[hh].st = "exited" THEN "ready" ELSE "pending"])

Complete(hh) ==
  /\ EnvOK /\ Alive(hh) /\ ~S.h[hh].complete /\ S.h[hh].st \in {"offered", "running"}
  /\ S' = Rec(F_Complete(S, hh), [a |-> "Complete", h |-> hh])

AppDropHandler(hh) ==
  /\ AllowAppDrop /\ EnvOK /\ Alive(hh)
  /\ S' = Rec(AppDrop(S, hh), [a |-> "DropHandler", h |-> hh])

AppDropStream ==
  /\ AllowStreamDrop /\ EnvOK /\ Idle /\ S.sstate = "live"
  /\ S' = Rec(DropStream(S, "dropped"), [a |-> "DropStream"])

PeerReq(id, dl) ==
  /\ EnvOK /\ S.reqLeft > 0 /\ ~S.eof /\ S.sstate = "live"
  /\ (FreshIdsOnly => id \notin S.usedIds)
  /\ S' = Rec([F_PeerReq(S, id, dl) EXCEPT !.reqLeft = @ - 1], [a |-> "Req", id |-> id, dl |-> dl])

PeerCancel(id) ==
  /\ EnvOK /\ S.cancelLeft > 0 /\ ~S.eof /\ S.sstate = "live" /\ id \in S.usedIds
  /\ S' = Rec([F_PeerCancel(S, id) EXCEPT !.cancelLeft = @ - 1], [a |-> "Cancel", id |-> id])

PeerEof ==
  /\ AllowEof /\ EnvOK /\ ~S.eof /\ S.sstate = "live"
  /\ S' = Rec(F_PeerEof(S), [a |-> "PeerEof"])

Tick ==
  /\ EnvOK /\ S.now < MaxTime
  /\ S' = Rec(F_Tick(S, 1), [a |-> "Tick", d |-> 1])

SinkOpen ==
  /\ SinkMode = "coupled" /\ EnvOK /\ ~S.open
  /\ S' = Rec(F_SinkOpen(S), [a |-> "SinkOpen"])
SinkBlock ==
  /\ SinkMode = "coupled" /\ EnvOK /\ S.open /\ S.sstate = "live" /\ S.sinkLeft > 0
  /\ S' = Rec([F_SinkBlock(S) EXCEPT !.sinkLeft = @ - 1], [a |-> "SinkBlock"])
SinkCredit ==
  /\ SinkMode = "independent" /\ EnvOK /\ S.credits < 1 /\ S.sstate = "live"
  /\ S' = Rec(F_SinkCredit(S), [a |-> "SinkCredit"])

Arm(op) ==
  /\ EnvOK /\ S.fault = NoFault /\ S.faultsLeft > 0 /\ S.sstate = "live"
  /\ S' = Rec([F_Arm(S, op, 1) EXCEPT !.faultsLeft = @ - 1], [a |-> "Arm", op |-> op, k |-> 1])

Next ==
  \/ StreamPoll \/ StreamStep
  \/ \E hh \in 1..MaxInc : HandlerPoll(hh) \/ Complete(hh) \/ AppDropHandler(hh)
  \/ AppDropStream
  \/ \E id \in Ids, dl \in Deadlines : PeerReq(id, dl)
  \/ \E id \in Ids : PeerCancel(id)
  \/ PeerEof \/ Tick \/ SinkOpen \/ SinkBlock \/ SinkCredit
  \/ \E op \in FaultOps : Arm(op)

Spec == Init /\ [][Next]_S

(* fairness: every task that is woken is eventually polled, the clock advances, a sink that is not ready   *)
(* becomes ready again (it can be blocked only sinkLeft times)                                              *)
Fair == /\ WF_S(StreamPoll) /\ WF_S(StreamStep) /\ WF_S(Tick) /\ WF_S(SinkOpen) /\ WF_S(SinkCredit)
        /\ \A hh \in 1..MaxInc : WF_S(HandlerPoll(hh))
FairSpec == Spec /\ Fair

(* ------------------------------------------------------------------ observer at settle / quiescent points *)
Writable == ReadyNow(S) \/ (SinkMode = "coupled" /\ S.open)
Settled == /\ Idle /\ (S.sstate = "live" => T \notin S.woken)
           /\ \A hh \in 1..MaxInc : Alive(hh) => hh \notin S.woken
Quiescent == Settled /\ Writable /\ S.sdq = {} /\ S.inq = <<>>
OAt == IF Settled
         THEN SPoint(S.o, IF Quiescent THEN "quiescent" ELSE "settled", Len(S.inq), Writable,
                     S.sstate = "live", Cardinality(S.sinfl), Cardinality(S.sdq))
         ELSE S.o

(* property invariants in "except known findings" form: every recorded violation carries a signature *)
OnlyKnown(p) == \A b \in BadOf(S.o, p) : b[3] # ""
M_C04 == OnlyKnown("C04") /\ StoppedAtPoint(OAt, "cancel")
M_C06 == OnlyKnown("C06") /\ StoppedAtPoint(OAt, "expired")
M_C08 == OnlyKnown("C08")
M_C12 == OnlyKnown("C12")
M_C11 == OnlyKnown("C11") /\ ((AtPt(OAt) /\ OAt.pt.alive /\ OAt.pt.writable /\ OAt.faults = <<>> /\ OAt.tracked = {}) =>
                                 (OAt.pt.infl = 0 /\ OAt.pt.timers = 0))
M_C09 == Inv_C09s(OAt)
M_C10 == Inv_C10s(OAt)
M_C14 == Inv_C14s(OAt)
M_C02 == Inv_C02s(OAt)
(* strict forms: used to demonstrate that the faithful model exhibits the known findings *)
Strict_C08 == Inv_C08(S.o)
Strict_C12 == Inv_C12(S.o)
Strict_C06 == Inv_C06(S.o) /\ Inv_C11s(S.o)

(* the observer's ground truth agrees with the channel's table whenever the channel is idle and settled *)
TrackAgree == (Settled /\ S.sstate = "live" /\ ~S.o.f6 /\ S.o.faults = <<>>) =>
                 {p[1] : p \in {q \in S.o.tracked : AliveSure(S.o, q[2])}} \subseteq ChanIds(S)
TypeOK == /\ Cardinality(S.sdq) = Cardinality(S.sinfl)
          /\ Len(S.resp) + Cardinality(S.rgrant) <= RespBuf
NoSpin == ~S.o.spin

(* liveness (checked under FairSpec on small configurations, thorough tier):                              *)
(* every handler task that exists ends - by completing, by cancellation, by its deadline (all deadlines     *)
(* are <= MaxTime) or with the channel - and a peer that closed is eventually noticed: the stream ends.    *)
HEnded(hh) == S.h[hh].st \in {"exited", "gone"}
Live_Handlers == \A hh \in 1..MaxInc : (S.h[hh].st \in {"offered", "running", "sending"}) ~> HEnded(hh)
Live_Eof == (S.eof /\ S.now = MaxTime) ~> (S.sstate = "gone")
=============================================================================
