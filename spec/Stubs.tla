------------------------------- MODULE Stubs -------------------------------
(***************************************************************************)
(* Load-balancing and retry stubs (tarpc::client::stub).                   *)
(*                                                                         *)
(* RoundRobin: concurrent pickers over a shared cursor.  The code's        *)
(* AtomicCycle::next is ONE atomic fetch_add (action Pick).  SplitCursor   *)
(* = TRUE models a deliberately wrong variant (load, then store) that is   *)
(* kept as a negative test of this specification: TLC must find the        *)
(* imbalance.                                                              *)
(* ConsistentHash: the hasher is an arbitrary function Req -> 0..HashMax.  *)
(* Retry: the policy is an arbitrary function (result, attempt) -> BOOLEAN *)
(* and the backend an arbitrary result sequence.  Every attempt is issued   *)
(* with the caller's context (deadline and trace context) whatever the     *)
(* clock says about that deadline (`elapsed` is chosen freely and nothing   *)
(* reads it: the stub's promise does not depend on it).                    *)
(***************************************************************************)
EXTENDS Naturals, Integers, Sequences, FiniteSets, TLC

CONSTANTS Threads, Backends, PicksPerThread, SplitCursor,
          Reqs, HashMax, MaxAttempts, Results

VARIABLES cursor, count, done, loaded,       \* round robin
          hashf, chpick,                     \* consistent hash: chosen hasher, picks so far (req -> backend)
          policy, script, attempt, lastres, returned, log,  \* retry
          elapsed                            \* retry: the caller's deadline has already passed

vars == <<cursor, count, done, loaded, hashf, chpick, policy, script, attempt, lastres, returned, log, elapsed>>
(* the caller's context: its deadline and trace context, as opaque values *)
CallerCtx == <<"deadline-of-the-caller", "trace-context-of-the-caller">>
N == Cardinality(Backends)
BackendAt(i) == i % N

Init ==
  /\ cursor = 0 /\ count = [b \in 0..(N - 1) |-> 0] /\ done = [t \in Threads |-> 0]
  /\ loaded = [t \in Threads |-> -1]
  /\ hashf \in [Reqs -> 0..HashMax] /\ chpick = [r \in Reqs |-> -1]
  /\ policy \in [Results \X (1..MaxAttempts) -> BOOLEAN]
  /\ script \in [1..MaxAttempts -> Results]
  /\ attempt = 0 /\ lastres = "none" /\ returned = "none" /\ log = <<>> /\ elapsed \in BOOLEAN

(* ---- RoundRobin *)
Pick(t) ==
  /\ ~SplitCursor /\ done[t] < PicksPerThread
  /\ count' = [count EXCEPT ![BackendAt(cursor)] = @ + 1]
  /\ cursor' = cursor + 1
  /\ done' = [done EXCEPT ![t] = @ + 1]
  /\ UNCHANGED <<loaded, hashf, chpick, policy, script, attempt, lastres, returned, log, elapsed>>
Load(t) ==
  /\ SplitCursor /\ done[t] < PicksPerThread /\ loaded[t] = -1
  /\ loaded' = [loaded EXCEPT ![t] = cursor]
  /\ UNCHANGED <<cursor, count, done, hashf, chpick, policy, script, attempt, lastres, returned, log, elapsed>>
Store(t) ==
  /\ SplitCursor /\ loaded[t] # -1
  /\ cursor' = loaded[t] + 1
  /\ count' = [count EXCEPT ![BackendAt(loaded[t])] = @ + 1]
  /\ done' = [done EXCEPT ![t] = @ + 1]
  /\ loaded' = [loaded EXCEPT ![t] = -1]
  /\ UNCHANGED <<hashf, chpick, policy, script, attempt, lastres, returned, log, elapsed>>

(* ---- ConsistentHash *)
ChCall(r) ==
  /\ chpick' = [chpick EXCEPT ![r] = hashf[r] % N]
  /\ chpick[r] \in {-1, hashf[r] % N}
  /\ UNCHANGED <<cursor, count, done, loaded, hashf, policy, script, attempt, lastres, returned, log, elapsed>>

(* ---- Retry: `for i in 1.. { result = call(request); if should_retry(&result, i) continue; return result }` *)
RetryStep ==
  /\ returned = "none" /\ attempt < MaxAttempts
  /\ LET i == attempt + 1 r == script[i] IN
     /\ attempt' = i /\ lastres' = r
     /\ log' = Append(log, <<i, r, CallerCtx>>)
     /\ returned' = IF policy[<<r, i>>] /\ i < MaxAttempts THEN "none" ELSE r
  /\ UNCHANGED <<cursor, count, done, loaded, hashf, chpick, policy, script, elapsed>>

Next == (\E t \in Threads : Pick(t) \/ Load(t) \/ Store(t)) \/ (\E r \in Reqs : ChCall(r)) \/ RetryStep
Spec == Init /\ [][Next]_vars

(* ---- C20 *)
Inv_Balance == \A a, b \in 0..(N - 1) : count[a] - count[b] <= 1 /\ count[b] - count[a] <= 1
Inv_Hash == \A r \in Reqs : chpick[r] # -1 => (chpick[r] < N /\ chpick[r] = hashf[r] % N)
Inv_Retry ==
  /\ \A i \in DOMAIN log : log[i][1] = i /\ log[i][2] = script[i]            \* attempts 1,2,3,... in order
  /\ \A i \in DOMAIN log : log[i][3] = CallerCtx                             \* each with the caller's context
  /\ \A i \in DOMAIN log : i < Len(log) => policy[<<log[i][2], i>>]          \* every earlier attempt was retried
  /\ returned # "none" => (returned = lastres /\ (~policy[<<lastres, attempt>>] \/ attempt = MaxAttempts))
=============================================================================
