------------------------------- MODULE Client -------------------------------
(***************************************************************************)
(* Mechanism model of tarpc's client side: Channel::call (callers) and     *)
(* RequestDispatch (one future) over a pluggable transport with an         *)
(* adversarial peer.  tarpc/src/client.rs, client/in_flight_requests.rs,   *)
(* cancellations.rs.                                                       *)
(*                                                                         *)
(* The whole mechanism state is one record S; every piece of code is a     *)
(* pure operator S -> S named after the code it models, and an action is   *)
(* S' = Op(S).  The dispatch poll is a program counter machine (DStep):    *)
(*   top -> read -> wreq -> (ens-ready/ens-flush)* -> wcan -> ... -> exp   *)
(*   -> fin -> match -> (top | idle)                                       *)
(* With AtomicPolls a task's micro-steps run to its next Pending/Ready     *)
(* without interleaving (single-threaded executor: what the harness        *)
(* replays); without it every caller/environment step may interleave       *)
(* between micro-steps (multi-threaded runtime).                           *)
(*                                                                         *)
(* Primitives modelled explicitly: bounded mpsc with FIFO permit waiters   *)
(* (pend/waiters/granted), unbounded mpsc (canc), oneshot with close       *)
(* (call[c].val/closed/txAlive), DelayQueue (dq, dqW, dqS), wakers         *)
(* (rxW, cxW, rdW, wrW, flW, per-call oneshot waker) and the woken set.    *)
(*                                                                         *)
(* The observer record S.o is updated with the ObsClient operators at      *)
(* every point where the code makes something visible, so the property     *)
(* invariants of ObsClient are checked on this model by TLC and on traces  *)
(* of the real code by Trace_Client.                                       *)
(***************************************************************************)
EXTENDS Naturals, Integers, Sequences, FiniteSets, TLC, ObsClient

CONSTANTS
  Callers,       \* set of call numbers, e.g. 1..2
  MaxInFlight,   \* client::Config::max_in_flight_requests (>= 1)
  Buf,           \* client::Config::pending_request_buffer (>= 1)
  Deadlines,     \* set of absolute deadlines a call may carry
  MaxTime,       \* the clock stops here
  PeerBudget,    \* number of responses the adversarial peer may push
  SinkMode,      \* "always" | "coupled" | "independent"
  Cap,           \* sink capacity (coupled mode)
  FaultOps,      \* subset of {"next","ready","send","flush","close"}: ops at which one fault may be injected
  FaultKs,       \* the fault hits the k-th next use of the operation, k in FaultKs (e.g. {1} or {1, 2})
  AllowEof,      \* peer may end the read side
  AllowHandleDrop,
  AtomicPolls,
  FixF9,         \* ensure_writeable after the repair of finding F9
  Mutant,        \* "none", or the name of a deliberately wrong variant used to test the specification itself
  ExportSched

VARIABLE S

D == 0   \* task id of the dispatch; callers are their call numbers

NoSleep == -1      \* the DelayQueue holds no Sleep
NoVal == <<"none", 0, 0>>
NoFault == "none"

CallInit == [st |-> "idle", id |-> -1, dl |-> 0, closed |-> FALSE, val |-> NoVal, oneW |-> FALSE,
             armed |-> TRUE]

InitS ==
      [ now |-> 0, call |-> [c \in Callers |-> CallInit], nextId |-> 0, handles |-> 1,
        pend |-> <<>>, waiters |-> <<>>, granted |-> {}, rxClosed |-> FALSE, rxW |-> FALSE,
        canc |-> <<>>, cxW |-> FALSE,
        infl |-> {},          \* set of <<id, c>>
        dq |-> {},            \* set of <<id, at>>
        dqW |-> FALSE, dqS |-> FALSE, dly |-> NoSleep, wnow |-> 0, dqx |-> <<>>,
        term |-> "none",
        dpc |-> "idle", rd |-> "none", w1 |-> "none", w2 |-> "none", wr |-> "none", ret |-> "none",
        ens |-> "none",       \* which caller of ensure_writeable is active: "wreq" | "wcan"
        ensFlushed |-> FALSE,
        dstate |-> "live",    \* "live" | "done" | "dropped"
        inq |-> <<>>, eof |-> FALSE, rdW |-> FALSE, rdDone |-> FALSE,
        buffered |-> 0, open |-> TRUE, credits |-> 0, wrW |-> FALSE, flW |-> FALSE, closed |-> FALSE,
        fault |-> NoFault, faultK |-> 1, faultsLeft |-> 1, sinkLeft |-> 2,
        woken |-> {D},
        peerLeft |-> PeerBudget, pushN |-> 0,
        o |-> OInit(MaxInFlight, Buf),
        tags |-> {},          \* notable events of this behaviour (steers schedule export)
        sched |-> <<>> ]
Init == S = InitS

(* ------------------------------------------------------------------ small helpers *)
Wake(s, t) == [s EXCEPT !.woken = @ \cup {t}]
WakeIf(s, cond, t) == IF cond THEN Wake(s, t) ELSE s
Ob(s, x) == [s EXCEPT !.o = x]
Rec(s, a) == IF ExportSched THEN [s EXCEPT !.sched = Append(@, a)] ELSE s
Tag(s, t) == IF ExportSched THEN [s EXCEPT !.tags = @ \cup {t}] ELSE s
Body(id, n) == "r" \o ToString(id) \o "." \o ToString(n)
EBody(id, n) == "e" \o ToString(id) \o "." \o ToString(n)      \* detail of a server error pushed by the peer
InflIds(s) == {p[1] : p \in s.infl}
CallOfId(s, id) == (CHOOSE p \in s.infl : p[1] = id)[2]
AliveFuture(s, c) == s.call[c].st \in {"new", "waitperm", "await", "dropA", "dropB"}
Senders(s) == s.handles + Cardinality({c \in Callers : AliveFuture(s, c)})
Min(a, b) == IF a < b THEN a ELSE b
Max(a, b) == IF a > b THEN a ELSE b

(* the last Sender / RequestCancellation clone went away: both receivers are woken *)
SendersGone(s) ==
  IF Senders(s) = 0
    THEN LET s1 == WakeIf(s, s.rxW \/ s.cxW, D) IN [s1 EXCEPT !.rxW = FALSE, !.cxW = FALSE]
    ELSE s

(* ---- DelayQueue (tokio-util 0.7): entries dq, the waker of the last poll_expired (dqW), and one Sleep  *)
(* `delay` with its deadline dly and whether a waker is registered in it (dqS: it was polled and was       *)
(* pending since it was created; reset keeps the registration).  insert: an earlier deadline wakes the     *)
(* stored waker and resets / creates the Sleep; remove: if the earliest deadline changed the Sleep is      *)
(* reset to the next one (dropped when none is left), and emptying the queue wakes the stored waker.       *)
(* An entry whose deadline is not after the wheel's clock (wnow: the deadline of the last Sleep that       *)
(* elapsed) is not put into the wheel but onto the `expired` stack dqx; it is popped first, last pushed     *)
(* first, without looking at the Sleep, and it does not count for the next deadline.                       *)
EarliestIn(q) == IF q = {} THEN NoSleep ELSE CHOOSE t \in {p[2] : p \in q} : \A u \in {p[2] : p \in q} : t <= u
InStack(s, id) == \E i \in DOMAIN s.dqx : s.dqx[i] = id
Wheel(s) == {p \in s.dq : ~InStack(s, p[1])}
SleepReset(s, at) ==               \* Sleep::reset: fires at once (if a waker is registered) when `at` has passed
  LET s1 == [s EXCEPT !.dly = at] IN
  IF at <= s.now /\ s.dqS THEN [Wake(s1, D) EXCEPT !.dqS = FALSE] ELSE s1
SleepNew(s, at) == [s EXCEPT !.dly = at, !.dqS = FALSE]
DqInsert(s, id, at) ==
  LET s1 == [s EXCEPT !.dq = @ \cup {<<id, at>>}, !.dqx = IF at <= s.wnow THEN <<id>> \o @ ELSE @] IN
  IF s.dly = NoSleep \/ s.dly > at THEN
    LET s2 == IF s.dqW THEN [Wake(s1, D) EXCEPT !.dqW = FALSE] ELSE s1 IN
    IF s.dly = NoSleep THEN SleepNew(s2, at) ELSE SleepReset(s2, at)
  ELSE s1
DqRemove(s, id) ==
  LET prev == EarliestIn(Wheel(s))
      s1 == [s EXCEPT !.dq = {p \in @ : p[1] # id}, !.dqx = SelectSeq(@, LAMBDA x : x # id)]
      next == EarliestIn(Wheel(s1))
      s2 == IF prev = next THEN s1
            ELSE IF next = NoSleep THEN [s1 EXCEPT !.dly = NoSleep, !.dqS = FALSE]
            ELSE IF s.dly # NoSleep THEN SleepReset(s1, next) ELSE SleepNew(s1, next)
  IN IF s1.dq = {} /\ s.dq # {} /\ s2.dqW THEN [Wake(s2, D) EXCEPT !.dqW = FALSE] ELSE s2
DqClear(s) == [s EXCEPT !.dq = {}, !.dly = NoSleep, !.dqS = FALSE, !.dqx = <<>>, !.wnow = 0]

(* notable for schedule export: capacity comes back (reply / cancellation / expiry) while a request is queued behind the limit *)
FreesQueued(s, how) == IF s.pend # <<>> /\ Cardinality(s.infl) >= MaxInFlight THEN Tag(s, how \o "-frees-queued") ELSE s

(* ---- oneshot: the dispatch completes call c with value v *)
OneSend(s, c, v) ==
  IF s.call[c].closed \/ s.call[c].st \in {"done", "dropped", "idle"}
    THEN Tag(s, "value-dropped")                \* receiver closed or gone: the value is dropped
    ELSE LET s1 == [s EXCEPT !.call[c].val = v, !.call[c].oneW = FALSE]
         IN WakeIf(s1, s.call[c].oneW, c)

(* ---- bounded mpsc: a permit was released; hand it to the first waiter *)
ReleasePermit(s) ==
  IF s.rxClosed                       \* closed channel: the receiver is told when the last permit comes back
    THEN WakeIf([s EXCEPT !.rxW = IF s.dstate = "live" THEN FALSE ELSE @], s.rxW /\ s.dstate = "live", D)
  ELSE IF s.waiters # <<>>
    THEN LET c == Head(s.waiters) IN
         Wake([s EXCEPT !.waiters = Tail(@), !.granted = @ \cup {c}], c)
    ELSE s
PermitsFree(s) == Buf - Len(s.pend) - Cardinality(s.granted)

(* ------------------------------------------------------------------ transport as the dispatch sees it *)
(* a fault armed at the k-th next use of an operation: every use that does not fail counts down *)
FaultHits(s, op) == s.fault = op /\ s.faultK <= 1
ClearFault(s) == [s EXCEPT !.fault = NoFault]
SinkLog(s, op, res) ==
  LET s1 == IF s.fault = op /\ res # "err" THEN [s EXCEPT !.faultK = @ - 1] ELSE s
  IN Ob(s1, OSinkOp(s1.o, op, res, s1.buffered))

ReadyNow(s) == CASE SinkMode = "always" -> TRUE
                 [] SinkMode = "coupled" -> s.buffered < Cap
                 [] OTHER -> s.credits > 0
FlushNow(s) == CASE SinkMode = "coupled" -> s.open \/ s.buffered = 0
                 [] OTHER -> TRUE

(* ------------------------------------------------------------------ RequestDispatch::poll as micro-steps *)
Goto(s, pc) == [s EXCEPT !.dpc = pc]
SetTerm(s, kind) == Goto([s EXCEPT !.term = kind], "top")

D_Begin(s) ==
  LET s1 == [s EXCEPT !.woken = @ \ {D}, !.dpc = "top"]
      s2 == IF \E c \in Callers : s.call[c].st = "dropB" THEN Tag(s1, "poll-in-dropB")
            ELSE IF \E c \in Callers : s.call[c].st = "dropA" THEN Tag(s1, "poll-in-dropA") ELSE s1
  IN Ob(s2, OPollStart(s2.o, "d"))

D_End(s, res) ==        \* the poll returns
  LET s1 == Ob(s, OPollEnd(s.o, "d", res, Cardinality(s.infl), Cardinality(s.dq)))
      s2 == [s1 EXCEPT !.dpc = "idle", !.ret = res]
  IN IF res = "pending" THEN s2
     ELSE \* Ready: the executor drops the future; every oneshot sender in it is dropped
       LET s3 == [s2 EXCEPT !.dstate = "done"] IN s3

(* top of RequestDispatch::poll's loop *)
D_Top(s) ==
  IF s.term # "none" THEN Goto(s, "shut") ELSE Goto([s EXCEPT !.rd = "none", !.w1 = "none", !.w2 = "none", !.wr = "none"], "read")

(* shut_down_with_terminal_error *)
D_Shut(s) ==
  LET s1 == [s EXCEPT !.rxClosed = TRUE]
      \* close(): waiters are woken with an error
      s2 == [s1 EXCEPT !.woken = @ \cup {c \in Callers : \E i \in DOMAIN s.waiters : s.waiters[i] = c}]
  IN Goto(s2, "shut2")

RECURSIVE FailInfl(_, _)
FailInfl(s, ps) ==
  IF ps = {} THEN s
  ELSE LET p == CHOOSE x \in ps : TRUE IN FailInfl(OneSend(s, p[2], <<"channel", 0, 0>>), ps \ {p})

RECURSIVE DrainPend(_)
DrainPend(s) ==
  IF s.pend = <<>> THEN s
  ELSE LET c == Head(s.pend)
           s1 == [s EXCEPT !.pend = Tail(@)]
       IN DrainPend(OneSend(s1, c, <<"channel", 0, 0>>))

D_Shut2(s) ==
  LET s1 == FailInfl(s, s.infl)
      s2 == DqClear([s1 EXCEPT !.infl = {}])
      s3 == DrainPend(s2)
  IN \* poll_recv after close: Ready(None) only when no permit is outstanding
     IF s3.granted # {}
       THEN D_End([s3 EXCEPT !.rxW = TRUE], "pending")
       ELSE LET s4 == Ob(s3, ODispDone(s3.o, s3.term)) IN D_End(s4, "ready")

(* pump_read *)
D_Read(s) ==
  IF s.rdDone THEN Goto([s EXCEPT !.rd = "closed"], "wreq")         \* Fuse: never polled again
  ELSE IF FaultHits(s, "next") THEN
    LET s1 == SinkLog(ClearFault(s), "next", "err")
        s2 == Ob(s1, OFault(s1.o, "next", "", -1))
    IN SetTerm(s2, "read")
  ELSE IF s.inq # <<>> THEN
    LET r == Head(s.inq)
        s1 == SinkLog([s EXCEPT !.inq = Tail(@)], "next", "item")
        s2 == Ob(s1, OHanded(s1.o, [id |-> r[1], ok |-> r[3], body |-> IF r[3] THEN Body(r[1], r[2]) ELSE EBody(r[1], r[2])]))
        s3 == IF r[1] \in InflIds(s2)
                THEN LET c == CallOfId(s2, r[1])
                         t1 == [FreesQueued(s2, "reply") EXCEPT !.infl = {p \in @ : p[1] # r[1]}]
                         t2 == DqRemove(t1, r[1])
                     IN OneSend(t2, c, <<IF r[3] THEN "ok" ELSE "server", r[1], r[2]>>)
                ELSE Tag(s2, "resp-unknown")
    IN Goto([s3 EXCEPT !.rd = "some"], "wreq")
  ELSE IF s.eof THEN
    LET s1 == SinkLog(s, "next", "eof") IN
    Goto([Ob(s1, OEofSeen(s1.o)) EXCEPT !.rd = "closed", !.rdDone = TRUE], "wreq")
  ELSE Goto([SinkLog(s, "next", "pending") EXCEPT !.rd = "pending", !.rdW = TRUE], "wreq")

(* ensure_writeable, shared by poll_next_request and poll_next_cancellation.        *)
(* before F9's repair: while poll_ready is Pending { ready!(poll_flush) }             *)
(* after:              if Pending { ready!(poll_flush); ready!(poll_ready) }          *)
EnsDone(s) == Goto([s EXCEPT !.ensFlushed = FALSE], IF s.ens = "wreq" THEN "wreq2" ELSE "wcan2")
EnsPending(s) ==
  IF s.ens = "wreq" THEN Goto([s EXCEPT !.w1 = "pending", !.ensFlushed = FALSE], "wcan")
  ELSE Goto([s EXCEPT !.w2 = "pending", !.ensFlushed = FALSE], "exp")

D_EnsReady(s) ==
  IF FaultHits(s, "ready") THEN
    LET s1 == SinkLog(ClearFault(s), "ready", "err") IN
    SetTerm(Ob(s1, OFault(s1.o, "ready", "", -1)), "ready")
  ELSE IF ReadyNow(s) THEN EnsDone(SinkLog(s, "ready", "ok"))
  ELSE LET s1 == SinkLog([s EXCEPT !.wrW = TRUE], "ready", "pending") IN
       IF FixF9 /\ s.ensFlushed THEN EnsPending(s1)       \* second Pending after a completed flush: yield
       ELSE Goto(s1, "ensflush")

D_EnsFlush(s) ==
  IF FaultHits(s, "flush") THEN
    LET s1 == SinkLog(ClearFault(s), "flush", "err") IN
    SetTerm(Ob(s1, OFault(s1.o, "flush", "", -1)), "flush")
  ELSE IF FlushNow(s) THEN
    LET s1 == [s EXCEPT !.buffered = 0, !.ensFlushed = TRUE] IN
    Goto(SinkLog(WakeIf([s1 EXCEPT !.wrW = IF s.buffered > 0 THEN FALSE ELSE @], s.buffered > 0 /\ s.wrW, D), "flush", "ok"), "ensready")
  ELSE EnsPending(SinkLog([s EXCEPT !.flW = TRUE], "flush", "pending"))

(* poll_write_request / poll_next_request *)
D_WReq(s) ==
  IF Cardinality(s.infl) >= MaxInFlight
    THEN Goto(Tag([s EXCEPT !.w1 = "pending"], IF s.pend # <<>> THEN "atcap-queued" ELSE "atcap"), "wcan")          \* no waker: timers and responses free capacity
    ELSE Goto([s EXCEPT !.ens = "wreq"], "ensready")

(* the recv loop of poll_next_request, then insert + start_send *)
D_WReq2(s) ==
  IF s.pend # <<>> THEN
    LET c == Head(s.pend)
        s1 == ReleasePermit([s EXCEPT !.pend = Tail(@)])
    IN IF s.call[c].closed THEN Goto(Tag(s1, "skipclosed"), "wreq2")              \* AbortRequest: skip, loop
       ELSE
         LET id == s.call[c].id
             s2 == [s1 EXCEPT !.infl = @ \cup {<<id, c>>}]
             s3 == DqInsert(s2, id, Max(s.call[c].dl, s.now))
         IN IF FaultHits(s3, "send") THEN
              LET s4 == SinkLog(ClearFault(s3), "send", "err")
                  s5 == Ob(s4, OFault(s4.o, "send", "req", c))
                  s6 == DqRemove([s5 EXCEPT !.infl = {p \in @ : p[1] # id}], id)
              IN Goto([OneSend(s6, c, <<"send", 0, 0>>) EXCEPT !.w1 = "some", !.wr = "some"], "match")
            ELSE
              LET s4 == [s3 EXCEPT !.buffered = @ + 1, !.credits = IF SinkMode = "independent" THEN @ - 1 ELSE @]
                  s5 == SinkLog(s4, "send", "ok")
                  s6 == Ob(s5, OWireOut(s5.o, [kind |-> "req", id |-> id, c |-> c, tr |-> c, span |-> 1000 + c, sampled |-> FALSE]))
              IN Goto([s6 EXCEPT !.w1 = "some", !.wr = "some"], "match")
  ELSE IF Senders(s) = 0 \/ s.rxClosed THEN Goto([s EXCEPT !.w1 = "closed"], "wcan")
  ELSE Goto([s EXCEPT !.w1 = "pending", !.rxW = TRUE], "wcan")

D_WCan(s) == Goto([s EXCEPT !.ens = "wcan"], "ensready")

D_WCan2(s) ==
  IF s.canc # <<>> THEN
    LET id == Head(s.canc)
        s1 == [s EXCEPT !.canc = Tail(@)]
    IN IF id \in InflIds(s1) THEN
         LET c == CallOfId(s1, id)
             s2 == DqRemove([FreesQueued(s1, "cancel") EXCEPT !.infl = {p \in @ : p[1] # id}], id)
         IN IF FaultHits(s2, "send") THEN
              LET s3 == SinkLog(ClearFault(s2), "send", "err") IN
              SetTerm(Ob(s3, OFault(s3.o, "send", "cancel", -1)), "write")
            ELSE
              LET s3 == [s2 EXCEPT !.buffered = @ + 1, !.credits = IF SinkMode = "independent" THEN @ - 1 ELSE @]
                  s4 == SinkLog(s3, "send", "ok")
                  s5 == Ob(s4, OWireOut(s4.o, [kind |-> "cancel", id |-> id, c |-> -1, tr |-> c, span |-> 1000 + c, sampled |-> FALSE]))
              IN Goto([s5 EXCEPT !.w2 = "some", !.wr = "some"], "match")
       ELSE Goto(Tag(s1, "cancelunknown"), "wcan2")                                  \* not in flight: ignore, loop
  ELSE IF Senders(s) = 0 THEN Goto([s EXCEPT !.w2 = "closed"], "exp")
  ELSE Goto([s EXCEPT !.w2 = "pending", !.cxW = TRUE], "exp")

(* in_flight_requests.poll_expired = DelayQueue::poll_expired / poll_idx.  One micro-step per loop turn:  *)
(* no Sleep -> Ready(None); Sleep not elapsed -> Pending with the waker registered; Sleep elapsed -> the  *)
(* wheel advances to its deadline, an entry due by then comes out (Ready), the Sleep is replaced by a     *)
(* fresh one for the next deadline; if nothing was due the loop polls that new Sleep.                     *)
D_Exp(s) ==
  LET s0 == [s EXCEPT !.dqW = TRUE]
      Expire(t, id) ==               \* the entry `id` came out: it leaves the table and its call fails with DeadlineExceeded
        LET t1 == [t EXCEPT !.dq = {p \in @ : p[1] # id}]
            t2 == IF id \in InflIds(t1)
                    THEN LET c == CallOfId(t1, id) IN
                         OneSend([FreesQueued(t1, "expiry") EXCEPT !.infl = {q \in @ : q[1] # id}], c, <<"deadline", 0, 0>>)
                    ELSE t1
        IN Goto(Tag([t2 EXCEPT !.wr = "some"], "expired"), "match")
  IN
  IF s0.dqx # <<>> THEN Expire([s0 EXCEPT !.dqx = Tail(@)], Head(s0.dqx))
  ELSE IF s0.dly = NoSleep THEN Goto(s0, "fin")
  ELSE IF s0.dly > s0.now THEN Goto([s0 EXCEPT !.dqS = TRUE], "fin")
  ELSE
    LET due == {p \in Wheel(s0) : p[2] <= s0.dly}
        s1 == [s0 EXCEPT !.wnow = s0.dly] IN
    IF due # {} THEN
       \* entries of one wheel slot come out last-inserted first (observed; equal deadlines only)
       LET p == CHOOSE x \in due : \A y \in due : x[2] < y[2] \/ (x[2] = y[2] /\ x[1] >= y[1])
           rest == Wheel(s1) \ {p}
       IN Expire([s1 EXCEPT !.dly = EarliestIn(rest), !.dqS = FALSE], p[1])
    ELSE Goto([s1 EXCEPT !.dly = EarliestIn(Wheel(s1)), !.dqS = FALSE], "exp")

(* the tail of pump_write: close when both queues are closed, else flush *)
D_Fin(s) ==
  IF s.w1 = "closed" /\ s.w2 = "closed" THEN
    IF FaultHits(s, "close") THEN
      LET s1 == SinkLog(ClearFault(s), "close", "err") IN
      SetTerm(Ob(s1, OFault(s1.o, "close", "", -1)), "close")
    ELSE IF FlushNow(s) THEN
      Goto([SinkLog([s EXCEPT !.buffered = 0, !.closed = TRUE], "close", "ok") EXCEPT !.wr = "closed"], "match")
    ELSE Goto([SinkLog([s EXCEPT !.flW = TRUE], "close", "pending") EXCEPT !.wr = "pending"], "match")
  ELSE
    IF FaultHits(s, "flush") THEN
      LET s1 == SinkLog(ClearFault(s), "flush", "err") IN
      SetTerm(Ob(s1, OFault(s1.o, "flush", "", -1)), "flush")
    ELSE IF FlushNow(s) THEN
      LET s1 == WakeIf([s EXCEPT !.buffered = 0, !.wrW = IF s.buffered > 0 THEN FALSE ELSE @], s.buffered > 0 /\ s.wrW, D) IN
      Goto([SinkLog(s1, "flush", "ok") EXCEPT !.wr = "pending"], "match")
    ELSE Goto([SinkLog([s EXCEPT !.flW = TRUE], "flush", "pending") EXCEPT !.wr = "pending"], "match")

(* the match in RequestDispatch::run *)
D_Match(s) ==
  IF s.rd = "closed" THEN D_End(Ob(s, ODispDone(s.o, "ok")), "ready")
  ELSE IF s.wr = "closed" THEN
    IF s.infl = {} THEN D_End(Ob(s, ODispDone(s.o, "ok")), "ready")
    ELSE IF s.rd = "some" THEN Goto(s, "top") ELSE D_End(s, "pending")
  ELSE IF s.rd = "some" \/ s.wr = "some" THEN Goto(s, "top")
  ELSE D_End(s, "pending")

DStep(s) ==
  CASE s.dpc = "top"      -> D_Top(s)
    [] s.dpc = "shut"     -> D_Shut(s)
    [] s.dpc = "shut2"    -> D_Shut2(s)
    [] s.dpc = "read"     -> D_Read(s)
    [] s.dpc = "wreq"     -> D_WReq(s)
    [] s.dpc = "wreq2"    -> D_WReq2(s)
    [] s.dpc = "wcan"     -> D_WCan(s)
    [] s.dpc = "wcan2"    -> D_WCan2(s)
    [] s.dpc = "ensready" -> D_EnsReady(s)
    [] s.dpc = "ensflush" -> D_EnsFlush(s)
    [] s.dpc = "exp"      -> D_Exp(s)
    [] s.dpc = "fin"      -> D_Fin(s)
    [] s.dpc = "match"    -> D_Match(s)

SpinLimit == 60
RECURSIVE DRun(_, _)
DRun(s, fuel) ==
  IF s.dpc = "idle" THEN s
  ELSE IF fuel = 0 THEN [Ob(s, OSpin(s.o)) EXCEPT !.dpc = "idle", !.dstate = "done", !.ret = "spin"]
  ELSE DRun(DStep(s), fuel - 1)

(* the dispatch future is dropped after completing: oneshot senders in it are dropped *)
DropDispatch(s) ==
  LET waiting == {c \in Callers : s.call[c].st \in {"await"} /\ s.call[c].val = NoVal}
      s1 == [s EXCEPT !.dstate = "dropped", !.rxClosed = TRUE,
                      !.woken = (@ \cup {c \in waiting : s.call[c].oneW})
                                \cup {c \in Callers : \E i \in DOMAIN s.waiters : s.waiters[i] = c}]
  IN Ob(s1, ODispDropped(s1.o))

(* ------------------------------------------------------------------ callers *)
ResultKind(v) == v[1]

(* the call future resolves: result is returned, the future (guard, Channel clone) is dropped *)
Resolve(s, c, kind, body) ==
  LET s1 == [s EXCEPT !.call[c].st = "done", !.call[c].closed = TRUE]
      s2 == Ob(s1, OResolved(s1.o, c, kind, body))
  IN SendersGone(s2)

(* Channel::call up to its first suspension: id, oneshot, guard, send().await *)
C_Poll(s, c) ==
  LET s0 == Ob([s EXCEPT !.woken = @ \ {c}], OCallPolled(s.o, c)) IN
  CASE s.call[c].st = "new" ->
         LET id == s.nextId
             s1 == [s0 EXCEPT !.nextId = @ + 1, !.call[c].id = id]
         IN IF s.rxClosed THEN                              \* send fails: Shutdown; guard drop queues a cancel
              Resolve([s1 EXCEPT !.canc = IF s.dstate = "dropped" THEN @ ELSE Append(@, id)], c, "shutdown", "")
            ELSE IF PermitsFree(s) > 0 /\ s.waiters = <<>> THEN
              LET s2 == [s1 EXCEPT !.pend = Append(@, c), !.call[c].st = "await", !.call[c].oneW = TRUE, !.rxW = FALSE]
              IN WakeIf(s2, s.rxW, D)
            ELSE [s1 EXCEPT !.waiters = Append(@, c), !.call[c].st = "waitperm"]
    [] s.call[c].st = "waitperm" ->
         IF s.rxClosed THEN
           LET s1 == [s0 EXCEPT !.granted = @ \ {c}, !.waiters = SelectSeq(@, LAMBDA x : x # c),
                                !.canc = IF s.dstate = "dropped" THEN @ ELSE Append(@, s.call[c].id)]
               s2 == IF c \in s.granted /\ s.rxW /\ s.dstate = "live" THEN Wake([s1 EXCEPT !.rxW = FALSE], D) ELSE s1
           IN Resolve(s2, c, "shutdown", "")
         ELSE IF c \in s.granted THEN
           LET s2 == [s0 EXCEPT !.granted = @ \ {c}, !.pend = Append(@, c), !.call[c].st = "await",
                                !.call[c].oneW = TRUE, !.rxW = FALSE]
           IN WakeIf(s2, s.rxW, D)
         ELSE s0                                            \* spurious: still waiting
    [] s.call[c].st = "await" ->
         IF s.call[c].val # NoVal THEN
           LET v == s.call[c].val IN
           Resolve([s0 EXCEPT !.call[c].armed = FALSE], c, ResultKind(v),
                   IF v[1] = "ok" THEN Body(v[2], v[3]) ELSE IF v[1] = "server" THEN EBody(v[2], v[3]) ELSE "")
         ELSE IF s.dstate = "dropped" THEN Resolve(s0, c, "shutdown", "")
         ELSE [s0 EXCEPT !.call[c].oneW = TRUE]
    [] OTHER -> s0

(* abandoning a call = dropping its future; the guard's drop has three separable steps *)
Ab_Enter(s, c) ==
  LET s00 == Ob(s, ODropEnter(s.o, c))
      \* notable: the call is abandoned after its deadline passed but before the dispatch has processed the expiry
      s0 == IF s.call[c].id \in InflIds(s) /\ s.now >= s.call[c].dl THEN Tag(s00, "abandon-overdue") ELSE s00 IN
  CASE s.call[c].st = "new" ->                              \* never polled: nothing was created
         SendersGone(Ob([s0 EXCEPT !.call[c].st = "dropped", !.woken = @ \ {c}], OAbandon(s0.o, c)))
    [] s.call[c].st = "waitperm" ->                         \* the pending send future is dropped first
         LET wasGranted == c \in s.granted
             s1 == [s0 EXCEPT !.waiters = SelectSeq(@, LAMBDA x : x # c), !.granted = @ \ {c},
                              !.call[c].st = "dropA", !.woken = @ \ {c}]
         IN IF wasGranted THEN ReleasePermit(s1) ELSE s1
    [] OTHER -> [s0 EXCEPT !.call[c].st = "dropA", !.woken = @ \ {c}]

QueueCancel(s, c) ==
  IF s.call[c].armed /\ s.dstate # "dropped"
    THEN WakeIf([s EXCEPT !.canc = Append(@, s.call[c].id), !.cxW = FALSE], s.cxW, D)
    ELSE s
CloseRx(s, c) == [s EXCEPT !.call[c].closed = TRUE]

(* Mutant "swapdrop": the guard queues the cancellation before closing the receiver *)
Ab_Close(s, c) ==
  LET s1 == IF Mutant = "swapdrop" THEN QueueCancel(s, c) ELSE CloseRx(s, c)
  IN [s1 EXCEPT !.call[c].st = "dropB"]

Ab_Cancel(s, c) ==
  LET s1 == IF Mutant = "swapdrop" THEN CloseRx(s, c) ELSE QueueCancel(s, c)
      s2 == [s1 EXCEPT !.call[c].st = "dropped"]
  IN SendersGone(Ob(s2, OAbandon(s2.o, c)))

(* ------------------------------------------------------------------ actions *)
Idle == S.dpc = "idle"
EnvOK == Idle \/ ~AtomicPolls
NoWindow == \A c \in Callers : S.call[c].st \notin {"dropA", "dropB"}

(* environment steps as operators on the state (used by the actions below and by Trace_ClientMech) *)
F_CallStart(s, c, dl) ==
  LET s1 == [s EXCEPT !.call[c].st = "new", !.call[c].dl = dl, !.woken = @ \cup {c}]
  IN Ob(s1, OCallStart([s1.o EXCEPT !.now = s.now], c, dl, c, 7, FALSE))
F_HandleCount(s, k) ==
  LET s1 == [s EXCEPT !.handles = k, !.o = OHandles(s.o, k)] IN IF k = 0 THEN SendersGone(s1) ELSE s1
F_PeerSend(s, id, ok) ==
  LET n == s.pushN + 1
      s1 == [s EXCEPT !.inq = Append(@, <<id, n, ok>>), !.pushN = n, !.rdW = FALSE]
  IN Ob(WakeIf(s1, s.rdW, D), OPush(s1.o, [id |-> id, ok |-> ok, body |-> IF ok THEN Body(id, n) ELSE EBody(id, n)]))
F_PeerEof(s) ==
  LET s1 == WakeIf([s EXCEPT !.eof = TRUE, !.rdW = FALSE], s.rdW, D) IN Ob(s1, OEofPushed(s1.o))
F_Tick(s, d) ==
  LET t == s.now + d
      fires == s.dqS /\ s.dly # NoSleep /\ s.dly <= t
      s1 == [s EXCEPT !.now = t, !.o.now = t, !.dqS = IF fires THEN FALSE ELSE @]
  IN WakeIf(s1, fires, D)
F_SinkOpen(s) == WakeIf([s EXCEPT !.open = TRUE, !.wrW = FALSE, !.flW = FALSE], s.wrW \/ s.flW, D)
F_SinkBlock(s) == [s EXCEPT !.open = FALSE]
F_SinkCredit(s) == WakeIf([s EXCEPT !.credits = @ + 1, !.wrW = FALSE], s.wrW, D)
F_Arm(s, op, k) ==
  LET s1 == [s EXCEPT !.fault = op, !.faultK = k]
  IN CASE op = "next"  -> WakeIf([s1 EXCEPT !.rdW = FALSE], s.rdW, D)
       [] op = "ready" -> WakeIf([s1 EXCEPT !.wrW = FALSE], s.wrW, D)
       [] op = "flush" -> WakeIf([s1 EXCEPT !.flW = FALSE], s.flW, D)
       [] OTHER -> s1
(* one poll of the dispatch future by a single-threaded executor (the future is dropped once it completes) *)
F_DispatchPoll(s) ==
  LET s1 == DRun(D_Begin(s), SpinLimit) IN IF s1.dstate = "done" THEN DropDispatch(s1) ELSE s1

CallStart(c, dl) ==
  /\ EnvOK /\ S.call[c].st = "idle" /\ S.handles > 0
  /\ \A c2 \in Callers : c2 < c => S.call[c2].st # "idle"          \* symmetry: start calls in order
  /\ S' = Rec(F_CallStart(S, c, dl), [a |-> "Call", c |-> c, dl |-> dl])

CallerPoll(c) ==
  /\ EnvOK /\ c \in S.woken /\ AliveFuture(S, c) /\ S.call[c].st \in {"new", "waitperm", "await"}
  /\ LET s1 == C_Poll(S, c) IN
     S' = Rec(s1, [a |-> "Poll", t |-> c, res |-> IF s1.call[c].st = "done" THEN s1.o.call[c].kind ELSE "pending"])

AbandonEnter(c) ==
  /\ EnvOK /\ NoWindow /\ S.call[c].st \in {"new", "waitperm", "await"}
  /\ S' = Rec(Ab_Enter(S, c), [a |-> "DropEnter", c |-> c])
AbandonClose(c) ==
  /\ EnvOK /\ S.call[c].st = "dropA"
  /\ S' = Rec(Ab_Close(S, c), [a |-> "DropMid", c |-> c])
AbandonCancel(c) ==
  /\ EnvOK /\ S.call[c].st = "dropB"
  /\ S' = Rec(Ab_Cancel(S, c), [a |-> "DropExit", c |-> c])

HandleDrop ==
  /\ AllowHandleDrop /\ EnvOK /\ S.handles > 0
  /\ S' = Rec(F_HandleCount(S, 0), [a |-> "HandleDrop", h |-> 0])

DispatchPoll ==
  /\ S.dstate = "live" /\ Idle /\ D \in S.woken
  /\ IF AtomicPolls
       THEN LET s1 == DRun(D_Begin(S), SpinLimit)
                s2 == IF s1.dstate = "done" THEN DropDispatch(s1) ELSE s1
            IN S' = Rec(s2, [a |-> "Poll", t |-> D, res |-> s1.ret, infl |-> Cardinality(s1.infl),
                             woken |-> {t \in s2.woken : IF t = D THEN s2.dstate = "live"
                                                          ELSE s2.call[t].st \in {"new", "waitperm", "await"}}])
       ELSE S' = D_Begin(S)

DispatchStep ==
  /\ ~AtomicPolls /\ S.dstate = "live" /\ ~Idle
  /\ LET s1 == DStep(S) IN
     S' = IF s1.dstate = "done" THEN DropDispatch(s1) ELSE s1

PeerSend(id) ==
  /\ EnvOK /\ S.peerLeft > 0 /\ ~S.eof /\ S.dstate = "live"
  /\ S' = Rec([F_PeerSend(S, id, TRUE) EXCEPT !.peerLeft = @ - 1], [a |-> "Peer", id |-> id])

PeerEof ==
  /\ AllowEof /\ EnvOK /\ ~S.eof /\ S.dstate = "live"
  /\ S' = Rec(F_PeerEof(S), [a |-> "PeerEof"])

Tick ==
  /\ EnvOK /\ S.now < MaxTime
  /\ S' = Rec(F_Tick(S, 1), [a |-> "Tick", d |-> 1])

SinkOpen ==
  /\ SinkMode = "coupled" /\ EnvOK /\ ~S.open
  /\ S' = Rec(F_SinkOpen(S), [a |-> "SinkOpen"])
SinkBlock ==
  /\ SinkMode = "coupled" /\ EnvOK /\ S.open /\ S.dstate = "live" /\ S.sinkLeft > 0
  /\ S' = Rec([F_SinkBlock(S) EXCEPT !.sinkLeft = @ - 1], [a |-> "SinkBlock"])
SinkCredit ==
  /\ SinkMode = "independent" /\ EnvOK /\ S.credits < 1 /\ S.dstate = "live"
  /\ S' = Rec(F_SinkCredit(S), [a |-> "SinkCredit"])

Arm(op, k) ==
  /\ EnvOK /\ S.fault = NoFault /\ S.faultsLeft > 0 /\ S.dstate = "live"
  /\ S' = Rec([F_Arm(S, op, k) EXCEPT !.faultsLeft = @ - 1], [a |-> "Arm", op |-> op, k |-> k])

Next ==
  \/ \E c \in Callers, dl \in Deadlines : CallStart(c, dl)
  \/ \E c \in Callers : CallerPoll(c) \/ AbandonEnter(c) \/ AbandonClose(c) \/ AbandonCancel(c)
  \/ HandleDrop
  \/ DispatchPoll \/ DispatchStep
  \/ \E id \in 0..(S.nextId) : PeerSend(id)
  \/ PeerEof \/ Tick \/ SinkOpen \/ SinkBlock \/ SinkCredit
  \/ \E op \in FaultOps, k \in FaultKs : Arm(op, k)

Spec == Init /\ [][Next]_S

Fair == /\ WF_S(DispatchPoll) /\ WF_S(DispatchStep) /\ WF_S(Tick) /\ WF_S(SinkOpen) /\ WF_S(SinkCredit)
        /\ \A c \in Callers : WF_S(CallerPoll(c)) /\ WF_S(AbandonClose(c)) /\ WF_S(AbandonCancel(c))
FairSpec == Spec /\ Fair

(* ------------------------------------------------------------------ observer at settle / quiescent points *)
Writable == ReadyNow(S) \/ (SinkMode = "coupled" /\ S.open)
Settled == /\ Idle /\ NoWindow
           /\ (S.dstate = "live" => D \notin S.woken)
           /\ \A c \in Callers : S.call[c].st \in {"new", "waitperm", "await"} => c \notin S.woken
Quiescent == Settled /\ Writable /\ S.dq = {} /\ S.inq = <<>>
OAt == IF Settled
         THEN OPoint(S.o, IF Quiescent THEN "quiescent" ELSE "settled", Len(S.inq), Writable,
                     S.dstate = "live", Cardinality(S.infl), Cardinality(S.dq))
         ELSE S.o

M_C01 == Inv_C01(OAt)
M_C02 == Inv_C02(OAt)
M_C03 == Inv_C03(OAt)
M_C05 == Inv_C05(OAt)
M_C09 == Inv_C09(OAt)
M_C10 == Inv_C10(OAt)
M_C11 == Inv_C11(OAt)
M_C14 == Inv_C14(OAt)
M_C18 == Inv_C18(OAt)

(* mechanism-level invariants *)
TypeOK ==
  /\ S.dpc \in {"idle", "top", "shut", "shut2", "read", "wreq", "wreq2", "wcan", "wcan2", "ensready",
                "ensflush", "exp", "fin", "match"}
  /\ Cardinality(S.infl) <= MaxInFlight
  /\ Len(S.pend) + Cardinality(S.granted) <= Buf
  /\ Cardinality(S.dq) = Cardinality(S.infl)
NoSpin == ~S.o.spin

(* liveness (checked under FairSpec on small configurations): every started call ends *)
Ended(c) == S.call[c].st \in {"done", "dropped"}
Live_C02 == \A c \in Callers : (S.call[c].st # "idle") ~> Ended(c)

Terminal == ~ENABLED Next
=============================================================================
