----------------------------- MODULE MC_Client -----------------------------
EXTENDS Client, Json
View == [S EXCEPT !.sched = <<>>, !.o = 0]
ExportJson == (ExportSched /\ ~ENABLED Next) => PrintT("SCHED " \o ToJson([tags |-> S.tags, steps |-> S.sched]))
=============================================================================
