------------------------------ MODULE Trace_Sys ------------------------------
(***************************************************************************)
(* Trace driver for the harness family `sys` (the whole stack under a real *)
(* tokio runtime): replays the recorded events through the observer        *)
(* ObsSys, one event per step.  A violated rule is reported (REPORT line)  *)
(* instead of stopping TLC, so that every scenario of a run is judged.     *)
(***************************************************************************)
EXTENDS ObsSys, Json, IOUtils

Rec == ndJsonDeserialize(IOEnv.TRACE)
VARIABLES l, scn, y
tvars == <<l, scn, y>>
TInit == l = 1 /\ scn = 0 /\ y = YInit(0, -1, 1000)

Step ==
  /\ l <= Len(Rec)
  /\ l' = l + 1
  /\ LET e == Rec[l] IN
     /\ scn' = e.scn
     /\ y' = CASE e.ev = "Reset"            -> YInit(e.n, e.limit, e.maxInFlight)
               [] e.ev = "SysConnect"       -> YConnect(y, e.k, e.key)
               [] e.ev = "SysArrive"        -> YArrive(y, e.k, e.key)
               [] e.ev = "SysTransportDrop" -> IF e.side = "s" THEN YServerDrop(y, e.k) ELSE YClientGone(y, e.k)
               [] e.ev = "SysCall"          -> YCall(y, e.c, e.k, e.dl, e.tr, e.sampled)
               [] e.ev = "SysWireOut"       -> IF e.side = "c" /\ e.kind = "req" /\ e.ok THEN YSend(y, e.c, e.k, e.id)
                                               ELSE IF e.side = "c" /\ e.kind = "cancel" /\ e.ok THEN YCancelOut(y, e.k, e.id)
                                               ELSE IF e.side = "s" /\ e.ok THEN YServerOut(y, e.k, e.id)
                                               ELSE y
               [] e.ev = "SysHandlerStart"  -> YHandlerStart(y, e.k, e.c, e.inc, e.tr, e.sampled)
               [] e.ev = "SysHandlerEnd"    -> YHandlerEnd(y, e.c, e.inc, e.finished)
               [] e.ev = "SysComplete"      -> YComplete(y, e.c)
               [] e.ev = "SysAbandon"       -> YAbandon(y, e.c)
               [] e.ev = "SysResolved"      -> YResolved(y, e.c, e.res, e.rc, e.rinc)
               [] e.ev = "SysDropClient"    -> YDropClient(y, e.k)
               [] e.ev = "SysTick"          -> YTick(y, e.d)
               [] e.ev = "SysIdle"          -> YIdle(y, e.busy)
               [] e.ev = "SysTeardown"      -> YTeardown(y)
               [] e.ev = "Panic"            -> YPanic(y)
               [] e.ev = "SysAdmitted"      -> YAdmitted(y, e.k)
               [] e.ev = "SysFault"         -> IF e.side = "s" THEN YServerFault(y, e.k) ELSE y
               [] e.ev = "SysUseAfterFail"  -> YUseAfterFail(y, e.side, e.op)
               [] e.ev = "SysHang"          -> YHang(y)
               [] e.ev = "SysSpin"          -> YUseAfterFail(y, e.side, "again and again without returning to the executor")
               [] e.ev = "SysWireClose"     -> IF e.side = "c" THEN YClientClose(y, e.k) ELSE y
               [] OTHER                     -> y

TSpec == TInit /\ [][Step]_tvars
Report(name, ok, why) == ok \/ PrintT(<<"REPORT", name, scn, l - 1, why>>)
Verdict_C01 == Report("Inv_C01sys", y.bad01 = {}, y.bad01)
Verdict_C02 == Report("Inv_C02sys", y.bad02 = {}, y.bad02)
Verdict_C03 == Report("Inv_C03sys", y.bad03 = {}, y.bad03)
Verdict_C04 == Report("Inv_C04sys", y.bad04 = {}, y.bad04)
Verdict_C05 == Report("Inv_C05sys", y.bad05 = {}, y.bad05)
Verdict_C06 == Report("Inv_C06sys", y.bad06 = {}, y.bad06)
Verdict_C08 == Verdict_C01
Verdict_C10 == Report("Inv_C10sys", y.bad10 = {}, y.bad10)
Verdict_C12 == Report("Inv_C12sys", y.bad12 = {}, y.bad12)
Verdict_C18 == Report("Inv_C18sys", y.bad18 = {}, y.bad18)
Verdict_C09 == Report("Inv_C09sys", y.bad09 = {}, y.bad09)
Verdict_C14 == Report("Inv_C14sys", y.bad14 = {}, y.bad14)
Verdict_C13 == Report("Inv_C13sys", y.bad13 = {}, y.bad13)
Verdict_All == Verdict_C01 /\ Verdict_C02 /\ Verdict_C03 /\ Verdict_C04 /\ Verdict_C05 /\ Verdict_C06 /\ Verdict_C10 /\ Verdict_C12 /\ Verdict_C13 /\ Verdict_C18 /\ Verdict_C09 /\ Verdict_C14
Accepted == l = Len(Rec) + 1 => PrintT(<<"ACCEPTED", Len(Rec)>>)
=============================================================================
