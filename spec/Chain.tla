------------------------------- MODULE Chain -------------------------------
(***************************************************************************)
(* Chains of services, depth 1..3 (properties C04 cascade, C07 and C18     *)
(* across hops).  Hop k = a call made with the context of hop k-1's        *)
(* handler, a link (FIFO, transit delay), a server channel, a handler.     *)
(* Each hop behaves according to the single-hop guarantees established on  *)
(* Client.tla / Server.tla and bound to the code by their checks:          *)
(*   G-C03  an abandoned call whose request was transmitted is followed by *)
(*          a Cancel on the same link (in order);                          *)
(*   G-C04  a Cancel read while the handler runs aborts it;                *)
(*   G-C06  a handler is aborted when its deadline passes;                 *)
(*   G-drop an aborted / finished handler drops its nested call;           *)
(*   G-C18  the nested request carries the handler's trace id and          *)
(*          sampling, with a fresh span; G-C07 deadlines are re-based.     *)
(* Chain.tla composes them and checks the end-to-end statements, including *)
(* liveness under fairness: abandoning the head eventually leaves no       *)
(* handler running.                                                        *)
(***************************************************************************)
EXTENDS Naturals, Integers, Sequences, FiniteSets, TLC

CONSTANTS Depth, Delays, Deadline, MaxTime, GateBudget, ExtendBy

Hops == 1..Depth
VARIABLES now, call, handler, link, hdl, htr, hspan, nextSpan, delay, pend, gate, gb, ext, npass
vars == <<now, call, handler, link, hdl, htr, hspan, nextSpan, delay, pend, gate, gb, ext, npass>>
(* ext[k]   : what the handler of hop k adds to its own deadline for its nested call (a handler may ask for more time than   *)
(*            it has itself; it will be aborted first, but the nested request must go out as asked)                          *)
(* npass[k] : the deadline the handler of hop k passed to its nested call                                                   *)
(* pend[k]    : what the client of hop k has to write while its sink is not ready (back-pressure):  *)
(*              messages wait here, in order, until the gate of hop k is open (G-C03/G-C14: a       *)
(*              cancellation or request that cannot be written yet is kept and written later)        *)
(* gate[k]    : the sink of hop k's client is ready;  gb: how often the environment may still close one *)
(* call[k]    : "none" | "open" | "dropped" | "done"     the call into hop k                       *)
(* handler[k] : "none" | "running" | "aborted" | "done"                                             *)
(* link[k]    : Seq of <<kind, readyAt, dl, tr, span>> travelling down link k                        *)

Init ==
  /\ now = 0
  /\ call = [k \in Hops |-> "none"] /\ handler = [k \in Hops |-> "none"]
  /\ link = [k \in Hops |-> <<>>]
  /\ hdl = [k \in Hops |-> -1] /\ htr = [k \in Hops |-> 0] /\ hspan = [k \in Hops |-> 0]
  /\ nextSpan = 100
  /\ delay \in [Hops -> Delays]
  /\ pend = [k \in Hops |-> <<>>] /\ gate = [k \in Hops |-> TRUE] /\ gb = GateBudget
  /\ ext \in [Hops -> {0, ExtendBy}] /\ npass = [k \in Hops |-> -1]

At(k) == IF now + delay[k] > MaxTime THEN MaxTime ELSE now + delay[k]
(* messages are first queued at the sending client (fields: kind, -, deadline, trace id, span, -) *)
Send(k, kind, dl, tr, span) == pend' = [pend EXCEPT ![k] = Append(@, <<kind, 0, dl, tr, span, 0>>)]
(* the client of hop k writes its next message once its sink is ready; the deadline leaves as remaining time *)
Write(k) ==
  /\ gate[k] /\ pend[k] # <<>>
  /\ LET m == Head(pend[k]) IN
       link' = [link EXCEPT ![k] = Append(@, <<m[1], At(k), m[3], m[4], m[5], now>>)]
  /\ pend' = [pend EXCEPT ![k] = Tail(@)]
  /\ UNCHANGED <<now, call, handler, hdl, htr, hspan, nextSpan, delay, gate, gb, ext, npass>>
CloseGate(k) == gate[k] /\ gb > 0 /\ gate' = [gate EXCEPT ![k] = FALSE] /\ gb' = gb - 1
                /\ UNCHANGED <<now, call, handler, link, hdl, htr, hspan, nextSpan, delay, pend, ext, npass>>
OpenGate(k) == ~gate[k] /\ gate' = [gate EXCEPT ![k] = TRUE]
               /\ UNCHANGED <<now, call, handler, link, hdl, htr, hspan, nextSpan, delay, pend, gb, ext, npass>>

Start ==
  /\ call[1] = "none"
  /\ call' = [call EXCEPT ![1] = "open"]
  /\ Send(1, "req", Deadline, 7, 201)
  /\ UNCHANGED <<now, handler, link, hdl, htr, hspan, nextSpan, delay, gate, gb, ext, npass>>

(* the server channel of hop k reads the next item of its link *)
Read(k) ==
  /\ link[k] # <<>> /\ Head(link[k])[2] <= now
  /\ LET m == Head(link[k]) rest == Tail(link[k]) IN
     /\ link' = [link EXCEPT ![k] = rest]
     /\ IF m[1] = "req" THEN
          \* G-C07: the deadline travels as remaining time and is re-based on arrival
          LET te == m[6]
              dlp == now + (IF m[3] > te THEN m[3] - te ELSE 0)
          IN
          /\ handler' = [handler EXCEPT ![k] = "running"]
          /\ hdl' = [hdl EXCEPT ![k] = dlp]
          /\ htr' = [htr EXCEPT ![k] = m[4]] /\ hspan' = [hspan EXCEPT ![k] = 100 + k]
          /\ IF k < Depth
               THEN /\ call' = [call EXCEPT ![k + 1] = "open"]
                    /\ Send(k + 1, "req", dlp + ext[k], m[4], 201 + k)
                    /\ npass' = [npass EXCEPT ![k] = dlp + ext[k]]
               ELSE UNCHANGED <<call, pend, npass>>
        ELSE \* Cancel: G-C04 aborts a running handler, G-drop drops its nested call, G-C03 cancels it on the next link
          /\ IF handler[k] = "running"
               THEN /\ handler' = [handler EXCEPT ![k] = "aborted"]
                    /\ IF k < Depth /\ call[k + 1] = "open"
                         THEN /\ call' = [call EXCEPT ![k + 1] = "dropped"]
                              /\ Send(k + 1, "cancel", 0, m[4], m[5])
                         ELSE UNCHANGED <<call, pend>>
               ELSE UNCHANGED <<handler, call, pend>>
          /\ UNCHANGED <<hdl, htr, hspan, npass>>
  /\ UNCHANGED <<now, nextSpan, delay, gate, gb, ext>>

(* G-C06 + G-drop: the handler of hop k is aborted when its deadline passes *)
Expire(k) ==
  /\ handler[k] = "running" /\ now >= hdl[k]
  /\ handler' = [handler EXCEPT ![k] = "aborted"]
  /\ IF k < Depth /\ call[k + 1] = "open"
       THEN /\ call' = [call EXCEPT ![k + 1] = "dropped"]
            /\ Send(k + 1, "cancel", 0, htr[k], 0)
       ELSE UNCHANGED <<call, pend>>
  /\ UNCHANGED <<now, link, hdl, htr, hspan, nextSpan, delay, gate, gb, ext, npass>>

(* the caller abandons the head call: G-C03 puts a Cancel behind the request *)
Abandon ==
  /\ call[1] = "open"
  /\ call' = [call EXCEPT ![1] = "dropped"]
  /\ Send(1, "cancel", 0, 7, 0)
  /\ UNCHANGED <<now, handler, link, hdl, htr, hspan, nextSpan, delay, gate, gb, ext, npass>>

LeafDone ==
  /\ handler[Depth] = "running"
  /\ handler' = [handler EXCEPT ![Depth] = "done"] /\ call' = [call EXCEPT ![Depth] = IF @ = "open" THEN "done" ELSE @]
  /\ UNCHANGED <<now, link, hdl, htr, hspan, nextSpan, delay, pend, gate, gb, ext, npass>>
(* a handler whose nested call is done finishes *)
Return(k) ==
  /\ k < Depth /\ handler[k] = "running" /\ call[k + 1] = "done"
  /\ handler' = [handler EXCEPT ![k] = "done"] /\ call' = [call EXCEPT ![k] = IF @ = "open" THEN "done" ELSE @]
  /\ UNCHANGED <<now, link, hdl, htr, hspan, nextSpan, delay, pend, gate, gb, ext, npass>>

Tick == now < MaxTime /\ now' = now + 1 /\ UNCHANGED <<call, handler, link, hdl, htr, hspan, nextSpan, delay, pend, gate, gb, ext, npass>>

Next == Start \/ Abandon \/ LeafDone \/ Tick
        \/ \E k \in Hops : Read(k) \/ Expire(k) \/ Return(k) \/ Write(k) \/ CloseGate(k) \/ OpenGate(k)
Spec == Init /\ [][Next]_vars
(* a sink that is not ready becomes ready again; it is closed at most GateBudget times *)
FairSpec == Spec /\ WF_vars(Tick)
            /\ \A k \in Hops : WF_vars(Read(k)) /\ WF_vars(Expire(k)) /\ WF_vars(Write(k)) /\ WF_vars(OpenGate(k))

SumDelay(k) == IF k = 1 THEN delay[1] ELSE IF k = 2 THEN delay[1] + delay[2] ELSE delay[1] + delay[2] + delay[3]
(* C07: no hop observes a deadline earlier than the caller's, nor later than it plus accumulated transit *)
(* (relative to the deadline the previous hop passed with its nested call - its own, or a later one it asked for) *)
Passed(k) == IF k = 1 THEN Deadline ELSE npass[k - 1]
Inv_C07 == \A k \in Hops : hdl[k] # -1 => (hdl[k] >= Passed(k) /\ hdl[k] <= Passed(k) + now)
(* C18: every hop observes the head's trace id; spans are pairwise different *)
Inv_C18 == /\ \A k \in Hops : handler[k] # "none" => htr[k] = 7
           /\ \A j, k \in Hops : (j # k /\ handler[j] # "none" /\ handler[k] # "none") => hspan[j] # hspan[k]
(* C04/C06: a handler is aborted only if its caller dropped the call or its deadline passed *)
Inv_AbortCause == \A k \in Hops : handler[k] = "aborted" => (call[k] = "dropped" \/ now >= hdl[k])
(* liveness: after the head is abandoned, eventually no handler is running *)
NoneRunning == \A k \in Hops : handler[k] # "running"
Live_Cascade == (call[1] = "dropped") ~> NoneRunning
=============================================================================
