----------------------------- MODULE ObsServer -----------------------------
(***************************************************************************)
(* Observer for one server channel: BaseChannel (+ optional MaxRequests)   *)
(* driven through Requests, handlers run by InFlightRequest::execute.      *)
(*                                                                         *)
(* The observer record `o` holds only what the peer, a wire-tap and the    *)
(* application can see: items the peer pushed and the channel read (in     *)
(* order), requests yielded to the application (handler incarnations,      *)
(* numbered in yield order), handler polls / completion / drop, responses  *)
(* written, transport operations with results, injected faults, virtual    *)
(* time, and the in-flight / timer counts at the end of channel polls.     *)
(* From these it maintains the GROUND TRUTH `tracked`: which incarnation   *)
(* of which id is still in flight (yielded and not yet answered, cancelled,*)
(* definitely expired, abandoned by the application, or channel dropped).  *)
(* Violations of the per-event rules are recorded in o.bad as              *)
(* <<property, what, signature>>; state rules are the Inv_* predicates.    *)
(* The same operators are used by Server.tla (model) and Trace_Server.tla  *)
(* (real executions).                                                      *)
(***************************************************************************)
EXTENDS Naturals, Integers, Sequences, FiniteSets, TLC

NoRead == [id |-> -1, dup |-> FALSE, amb |-> FALSE, omin |-> 0, omax |-> 0, rel |-> FALSE, stale |-> FALSE]
NoPt == [kind |-> "none", inq |-> 0, writable |-> TRUE, alive |-> TRUE, infl |-> 0, timers |-> 0]

SInit(limit, respBuf) ==
  [ limit |-> limit, respBuf |-> respBuf, now |-> 0,
    inc      |-> <<>>,     \* h -> [id, dl, polls, done, ended, dropped, answered, started]
    tracked  |-> {},       \* set of <<id, h>>: ground truth of what is in flight
    readIds  |-> {},       \* ids of requests read on this channel
    read     |-> NoRead,   \* the request read in this poll whose fate is not decided yet
    staleCancel |-> FALSE, \* a cancellation naming no tracked request was read in this scenario
    relInPoll|-> FALSE,    \* a release (cancel, guard drop) was processed earlier in this channel poll
    relPend  |-> FALSE,    \* an application guard drop awaits the next channel poll
    f7poll   |-> FALSE,    \* a refusal explained by finding F7 already happened in this channel poll
    guardIds |-> {},       \* ids abandoned by the application whose queued cancellation the channel may not have processed yet
    staleG   |-> {},       \* ids whose ALREADY ENDED incarnation's guard was dropped by the application
    nextInPoll |-> FALSE,  \* the transport's read side was polled in this channel poll
    lastRP   |-> FALSE,    \* the previous sink operation was poll_ready -> Pending
    f6poll   |-> FALSE,    \* two consecutive poll_ready -> Pending in this poll: MaxRequests gave up at its limit
    throttled|-> 0,        \* number of refusals
    wire     |-> <<>>,     \* responses written: [id, ok, h]
    eof      |-> "none",
    faults   |-> <<>>,
    stream   |-> "live",   \* "live" | "end" | "read" | "ready" | "write" | "flush" | "close" | "dropped"
    panic    |-> FALSE, spin |-> FALSE,
    credit   |-> FALSE, sinkfail |-> FALSE, unflushed |-> 0, lastflush |-> "none", thrUnfl |-> FALSE,
    bad      |-> {},       \* recorded violations: <<property, what, signature>>
    f6       |-> FALSE,    \* the F6 state (throttled poll that never reached the inner channel) was seen
    pt       |-> NoPt ]

STick(o, t) == [o EXCEPT !.pt = NoPt, !.now = t]
Bad(o, p, what, sig) == [o EXCEPT !.bad = @ \cup {<<p, what, sig>>}]

TrackedIds(o) == {p[1] : p \in o.tracked}
HOf(o, id) == (CHOOSE p \in o.tracked : p[1] = id)[2]
DlOf(o, h) == o.inc[h].dl
(* definitely alive / not definitely expired, to timer granularity (1 ms) *)
AliveSure(o, h) == o.now < DlOf(o, h)
MaybeAlive(o, h) == o.now < DlOf(o, h) + 1
Untrack(o, id) == [o EXCEPT !.tracked = {p \in @ : p[1] # id}]
EndInc(o, h, why) == IF o.inc[h].ended = "none" THEN [o EXCEPT !.inc[h].ended = why] ELSE o

(* the peer's item is handed to the channel by the transport *)
SReadReq(o, id, dl) ==
  LET oa == IF o.read.id >= 0 /\ ~o.read.dup /\ ~o.read.amb
              THEN Bad(o, "C08", "request read but neither yielded, refused nor a duplicate", "") ELSE o
      o0 == [oa EXCEPT !.nextInPoll = TRUE, !.readIds = @ \cup {id}]
      others == {p \in o.tracked : p[1] # id}
      omin == Cardinality({p \in others : AliveSure(o, p[2])})
      omax == Cardinality(others)
      isTr == id \in TrackedIds(o)
  IN [o0 EXCEPT !.read = [id |-> id,
                          dup |-> isTr /\ AliveSure(o, HOf(o, id)),
                          amb |-> (isTr /\ ~AliveSure(o, HOf(o, id))) \/ id \in o.guardIds,
                          omin |-> omin, omax |-> omax,
                          \* a release was, or (deadline reached) may have been, processed earlier in this poll
                          rel |-> o.relInPoll \/ (\E p \in o.tracked : ~AliveSure(o, p[2])),
                          stale |-> FALSE]]

SReadCancel(o, id) ==
  LET o0 == [o EXCEPT !.nextInPoll = TRUE] IN
  IF id \in TrackedIds(o)
    THEN LET h == HOf(o, id) IN [Untrack(EndInc(o0, h, "cancel"), id) EXCEPT !.relInPoll = TRUE]
    ELSE [o0 EXCEPT !.staleCancel = TRUE]

SEofSeen(o) == [o EXCEPT !.eof = "seen", !.nextInPoll = TRUE]
SEofPushed(o) == [o EXCEPT !.eof = IF @ = "none" THEN "pushed" ELSE @]

(* the request stream yields a request to the application: handler incarnation h *)
SYielded(o, h, id, dl) ==
  LET r == o.read
      o1 == IF r.id = id /\ r.dup
              THEN Bad(o, "C08", "request yielded although its id is still in flight", "")
              ELSE o
      o2 == IF r.id = id /\ o.limit >= 0 /\ r.omin >= o.limit
              THEN Bad(o1, "C12", "request handed to the application with L others in flight", "")
              ELSE o1
      o3 == IF r.id # id THEN Bad(o2, "C08", "yielded request was not the one just read", "") ELSE o2
      \* an ambiguous (possibly expired) older incarnation of this id is now certainly over
      o4 == IF id \in TrackedIds(o3) THEN Untrack(EndInc(o3, HOf(o3, id), "expired"), id) ELSE o3
      \* F8 aftermath: a stale response already "answered" (and untracked) this request in the same poll
      stale == r.id = id /\ r.stale
  IN [o4 EXCEPT !.inc = h :> [id |-> id, dl |-> dl, polls |-> 0, done |-> FALSE,
                             ended |-> IF stale THEN "answered" ELSE "none",
                             dropped |-> FALSE, answered |-> 0, started |-> FALSE, exited |-> FALSE] @@ @,
                !.tracked = IF stale THEN @ ELSE @ \cup {<<id, h>>},
                !.read = NoRead]

(* a response is written to the transport *)
SResponse(o, id, ok, h, throttle) ==
  LET r == o.read
      o0 == [o EXCEPT !.wire = Append(@, [id |-> id, ok |-> ok, h |-> h])] IN
  IF throttle /\ r.id = id /\ ~r.dup THEN
    \* the request just read is refused
    LET o1 == IF o.limit < 0 THEN Bad(o0, "C12", "request refused although no limit is configured", "") ELSE o0
        \* F7 (limit compared before the inner poll that releases a request and reads the next one) explains at most
        \* one such refusal per channel poll: the count is read again after every refusal
        f7 == o.limit >= 0 /\ r.omax < o.limit /\ r.rel /\ ~o.f7poll
        o2a == IF o.limit >= 0 /\ r.omax < o.limit
                THEN Bad(o1, "C12", "request refused although fewer than L others were in flight",
                         IF f7 THEN "Sig_RefusedAfterSamePollRelease" ELSE "")
                ELSE o1
        o2 == IF f7 THEN [o2a EXCEPT !.f7poll = TRUE] ELSE o2a
        o3 == IF id \in TrackedIds(o2) THEN Untrack(EndInc(o2, HOf(o2, id), "expired"), id) ELSE o2
    IN [o3 EXCEPT !.read = NoRead, !.throttled = @ + 1, !.thrUnfl = TRUE]
  ELSE IF h \in DOMAIN o.inc THEN
    LET i == o.inc[h]
        cur == IF id \in TrackedIds(o) THEN HOf(o, id) ELSE 0
        o1 == IF i.id # id THEN Bad(o0, "C08", "response carries the id of another request", "") ELSE o0
        o2 == IF ~i.done THEN Bad(o1, "C08", "response written although the handler has not finished", "") ELSE o1
        o3 == IF i.answered >= 1 THEN Bad(o2, "C08", "second response for one handler invocation", "") ELSE o2
        \* F8: the id is meanwhile used by a newer incarnation (tracked, or read and accepted in this very poll),
        \* so incarnation h had ended from the channel's point of view, yet its buffered response is written
        newer == (cur # 0 /\ cur # h) \/ (r.id = id /\ ~r.dup)
                 \/ (id \in o.guardIds /\ \E h2 \in DOMAIN o.inc : h2 > h /\ o.inc[h2].id = id)
        sig == IF newer THEN "Sig_StaleResponseCrossesIncarnation" ELSE ""
        what == "response written for a request that had been cancelled, expired or abandoned"
        o4 == IF i.ended \in {"cancel", "expired", "guard", "chandrop"} \/ newer
                THEN LET x == Bad(o3, "C08", what, sig) IN
                     IF i.ended = "cancel" THEN Bad(x, "C04", what, sig)
                     ELSE IF i.ended = "expired" THEN Bad(x, "C06", what, sig) ELSE x
                ELSE o3
        o5 == [o4 EXCEPT !.inc[h].answered = @ + 1,
                         !.read.stale = IF r.id = id /\ ~r.dup THEN TRUE ELSE @]
        \* F8 aftermath: the newer incarnation was "answered" by the stale response and is untracked with it
        o6 == IF cur # 0 /\ cur # h THEN EndInc(o5, cur, "answered") ELSE o5
    IN Untrack(EndInc(o6, h, "answered"), id)
  ELSE Bad(o0, "C08", "response answers no request of this channel", "")

SHandlerStart(o, h) == IF h \in DOMAIN o.inc THEN [o EXCEPT !.inc[h].started = TRUE] ELSE o
(* the task running InFlightRequest::execute for incarnation h returned *)
SHandlerExit(o, h) == IF h \in DOMAIN o.inc THEN [o EXCEPT !.inc[h].exited = TRUE] ELSE o

(* the application's handler future for incarnation h is polled / completes *)
HandlerGate(o, h, what) ==
  LET i == o.inc[h] IN
  IF i.ended = "cancel" THEN Bad(o, "C04", what \o " after its cancellation was processed", "")
  ELSE IF i.ended = "expired" THEN Bad(o, "C06", what \o " after its deadline expired",
                                       IF o.f6 THEN "Sig_ExpiryBlockedByThrottledUnreadySink" ELSE "")
  ELSE IF i.ended = "chandrop" THEN Bad(o, "C09", what \o " after the channel was dropped", "")
  ELSE o
SHandlerPoll(o, h) == [HandlerGate(o, h, "handler polled") EXCEPT !.inc[h].polls = @ + 1]
SHandlerDone(o, h) == [HandlerGate(o, h, "handler completed") EXCEPT !.inc[h].done = TRUE]
SHandlerDropped(o, h) ==
  LET o1 == [o EXCEPT !.inc[h].dropped = TRUE] IN
  \* a handler dropped before its deadline needs a cause (C06: never aborted early)
  IF ~o.inc[h].done /\ o.inc[h].ended = "none" /\ o.stream = "live" /\ AliveSure(o, h) /\ o.faults = <<>>
    THEN Bad(o1, "C06", "handler aborted before its deadline without cancellation", "")
    ELSE o1

(* the application drops a handler task (unstarted or midway): the request is abandoned *)
SAppDrop0(o, h) ==
  IF o.inc[h].ended = "none" /\ <<o.inc[h].id, h>> \in o.tracked
    THEN [Untrack(EndInc(o, h, "guard"), o.inc[h].id) EXCEPT !.relPend = TRUE, !.guardIds = @ \cup {o.inc[h].id}]
  ELSE IF o.inc[h].ended \in {"cancel", "expired", "answered"}
    THEN [o EXCEPT !.staleG = @ \cup {o.inc[h].id}]     \* its cancellation is still queued for the channel
  ELSE EndInc(o, h, "guard")

SAppDrop(o, h) == SAppDrop0([o EXCEPT !.inc[h].exited = TRUE], h)   \* the task is gone, it makes no further progress

(* the channel is gone (stream ended with an error, ended, or dropped by the application) *)
RECURSIVE EndAll(_, _)
EndAll(o, hs) == IF hs = {} THEN o ELSE LET h == CHOOSE x \in hs : TRUE IN EndAll(EndInc(o, h, "chandrop"), hs \ {h})
SStreamGone(o, how) ==
  LET o1 == EndAll(o, {p[2] : p \in o.tracked}) IN
  [o1 EXCEPT !.tracked = {}, !.stream = IF @ = "live" THEN how ELSE @]

SFault(o, op) == [o EXCEPT !.faults = Append(@, op)]
(* the transport refused the write of the response bearing `id`: the response is consumed, its request is over *)
SFaultSend(o, id) ==
  LET o1 == IF id \in TrackedIds(o) THEN Untrack(EndInc(o, HOf(o, id), "answered"), id) ELSE o
  IN [o1 EXCEPT !.faults = Append(@, "send")]
SPanic(o) == [o EXCEPT !.panic = TRUE]
SSpin(o) == [o EXCEPT !.spin = TRUE]

SSinkOp0(o, op, res, unflushed) ==
  CASE op = "ready" -> IF res = "ok" THEN [o EXCEPT !.credit = TRUE]
                       ELSE IF res = "err" THEN [o EXCEPT !.sinkfail = TRUE] ELSE o
    [] op = "send" ->
         LET o1 == IF ~o.credit THEN Bad(o, "C14", "send without readiness", "")
                   ELSE IF o.sinkfail THEN Bad(o, "C14", "send after failure", "") ELSE o
         IN [o1 EXCEPT !.credit = FALSE, !.unflushed = IF res = "ok" THEN @ + 1 ELSE @]
    [] op = "flush" -> IF res = "ok" THEN [o EXCEPT !.unflushed = 0, !.lastflush = "ok", !.thrUnfl = FALSE]
                       ELSE IF res = "err" THEN [o EXCEPT !.sinkfail = TRUE, !.lastflush = "err"]
                       ELSE [o EXCEPT !.lastflush = "pending"]
    [] op = "next" -> [o EXCEPT !.nextInPoll = TRUE]
    [] OTHER -> o

(* F8b: the queued cancellation of an ended incarnation names only the id; if the peer reused the id *)
(* meanwhile, the channel untracks the NEWER request when it processes that cancellation              *)
RECURSIVE StaleGuards(_, _)
StaleGuards(o, ids) ==
  IF ids = {} THEN o
  ELSE LET id == CHOOSE x \in ids : TRUE IN
       IF id \in TrackedIds(o)
         THEN LET h2 == HOf(o, id)
                  o1 == Bad(o, "C11", "guard drop of an ended incarnation untracks a newer request with the same id",
                            "Sig_StaleGuardDropCrossesIncarnation")
              IN StaleGuards(Untrack(EndInc(o1, h2, "answered"), id), ids \ {id})
         ELSE StaleGuards(o, ids \ {id})

SSinkOp(o, op, res, unflushed) ==
  LET rp == op = "ready" /\ res = "pending" IN
  [SSinkOp0(o, op, res, unflushed) EXCEPT !.f6poll = @ \/ (rp /\ o.lastRP), !.lastRP = rp]

SPollStart(o) ==
  LET o1 == StaleGuards(o, o.staleG) IN
  \* a queued guard cancellation is consumed by this poll or a later one: the channel takes one per loop turn and
  \* returns at once when it has read a request, so relPend stays up until a poll ran to Pending (SPollEnd)
  [o1 EXCEPT !.relInPoll = o.relPend \/ o.staleG # {}, !.staleG = {}, !.nextInPoll = FALSE,
             !.lastflush = "none", !.read = NoRead, !.lastRP = FALSE, !.f6poll = FALSE, !.f7poll = FALSE]

(* the end of a channel poll: expiry bookkeeping and count checks *)
RECURSIVE ExpireAll(_, _)
ExpireAll(o, ps) ==
  IF ps = {} THEN o
  ELSE LET p == CHOOSE x \in ps : TRUE IN ExpireAll(Untrack(EndInc(o, p[2], "expired"), p[1]), ps \ {p})

SPollEnd(o, res, infl, timers) ==
  LET quiet == o.faults = <<>>
      \* the F6 state: throttled channel whose poll never reached the inner channel
      f6now == o.limit >= 0 /\ o.f6poll /\ res = "pending"
      hi == Cardinality({p \in o.tracked : MaybeAlive(o, p[2])})
      lo == Cardinality({p \in o.tracked : AliveSure(o, p[2])})
      sig == IF f6now THEN "Sig_ExpiryBlockedByThrottledUnreadySink" ELSE ""
      o0 == IF f6now THEN [o EXCEPT !.f6 = TRUE] ELSE o
      o1 == IF quiet /\ res = "pending" /\ infl > hi
              THEN Bad(o0, "C11", "channel reports more requests in flight than are outstanding", sig) ELSE o0
      gone0 == {p \in o.tracked : ~MaybeAlive(o, p[2])}
      o1b == IF quiet /\ res = "pending" /\ infl > hi /\ gone0 # {}
              THEN Bad(o1, "C06", "request not aborted by a channel poll after its deadline passed", sig) ELSE o1
      o2 == IF quiet /\ res \in {"pending", "item"} /\ infl < lo
              THEN Bad(o1b, "C11", "channel reports fewer requests in flight than are outstanding", "") ELSE o1b
      o3 == IF quiet /\ res \in {"pending", "item"} /\ timers # infl
              THEN Bad(o2, "C11", "timer count differs from in-flight count", "") ELSE o2
      o4 == IF quiet /\ res = "pending" /\ o.unflushed > 0 /\ o.lastflush # "pending"
              THEN Bad(o3, "C14", "idle with unflushed items and no flush pending", "") ELSE o3
      \* a refusal written into the transport's buffer and left there when the channel goes idle has not been received
      o4b == IF quiet /\ res = "pending" /\ o.unflushed > 0 /\ o.lastflush # "pending" /\ o.thrUnfl
              THEN Bad(o4, "C12", "refused request's throttle response left unflushed when the channel went idle", "") ELSE o4
      \* a refused response write does not leave its request counted: the poll that reports the write error already shows it
      \* (a request read in this very poll is tracked by the channel although it has not been handed over yet)
      o4c == IF res = "err" /\ o.faults # <<>> /\ (\A i \in DOMAIN o.faults : o.faults[i] = "send")
                 /\ infl > hi + (IF o.read.id >= 0 THEN 1 ELSE 0)
              THEN Bad(o4b, "C11", "request still counted in flight after the write of its response failed", "") ELSE o4b
      o5a == IF o.read.id >= 0 /\ ~o.read.dup /\ ~o.read.amb /\ res \in {"pending", "item", "end"}
              THEN LET b8 == Bad(o4c, "C08", "request read but neither yielded, refused nor a duplicate", "") IN
                   IF o.limit >= 0 /\ o.read.omin >= o.limit
                     THEN Bad(b8, "C12", "request read at the limit was neither handed over nor answered with a throttle error", "")
                     ELSE b8
              ELSE o4c
      \* the channel died (without any injected fault) while a request it had read at its limit was still unanswered
      o5 == IF quiet /\ res = "err" /\ o.read.id >= 0 /\ ~o.read.dup /\ o.limit >= 0 /\ o.read.omin >= o.limit
              THEN Bad(o5a, "C12", "refused request did not receive its throttle response", "") ELSE o5a
      \* requests whose deadline has definitely passed are over once the channel has polled
      gone == {p \in o5.tracked : ~MaybeAlive(o5, p[2])}
      o6 == IF f6now \/ res # "pending" THEN o5 ELSE ExpireAll(o5, gone)
      o7 == IF quiet /\ ~f6now /\ res = "end" /\ (o6.eof # "seen" \/ {p \in o6.tracked : AliveSure(o6, p[2])} # {} \/ o6.unflushed > 0)
              THEN Bad(o6, "C10", "stream ended with requests in flight, unflushed responses or without end of input", "") ELSE o6
  IN [o7 EXCEPT !.read = NoRead,
                !.guardIds = IF res = "pending" /\ ~f6now THEN {} ELSE @,
                \* a poll that never reached the inner channel has not processed pending releases
                !.relPend = IF res = "pending" /\ ~f6now THEN FALSE ELSE @]

SPoint(o, kind, inq, writable, alive, infl, timers) ==
  [o EXCEPT !.pt = [kind |-> kind, inq |-> inq, writable |-> writable, alive |-> alive,
                    infl |-> infl, timers |-> timers]]

(* ------------------------------------------------------------------ property views *)
BadOf(o, p) == {b \in o.bad : b[1] = p}
AtPt(o) == o.pt.kind # "none"
AtQ(o) == o.pt.kind = "quiescent"
Unfinished(o) == {h \in DOMAIN o.inc : ~o.inc[h].done}

(* a cancelled / expired request makes no further progress: once everything woken has been polled, the task *)
(* executing it has finished (it does not linger, e.g. waiting to buffer a response nobody wants)           *)
StoppedAtPoint(o, why) ==
  (AtPt(o) /\ ~o.panic) => \A h \in DOMAIN o.inc : (o.inc[h].ended = why /\ o.inc[h].polls > 0) => o.inc[h].exited
(* "cancellations for unknown or finished requests have no effect": in particular they do not hold up what the peer sent after them *)
StaleCancelHarmless(o) ==
  (AtPt(o) /\ o.pt.alive /\ o.pt.writable /\ ~o.panic /\ ~o.f6 /\ o.staleCancel) => (o.pt.inq = 0 /\ o.eof # "pushed")
Inv_C04(o) == BadOf(o, "C04") = {} /\ StoppedAtPoint(o, "cancel") /\ StaleCancelHarmless(o)
Inv_C06(o) == BadOf(o, "C06") = {} /\ StoppedAtPoint(o, "expired")
Inv_C08(o) == BadOf(o, "C08") = {}
Inv_C12(o) == BadOf(o, "C12") = {}
Inv_C14s(o) == BadOf(o, "C14") = {} /\ ~o.spin
Inv_C11s(o) ==
  /\ BadOf(o, "C11") = {}
  /\ (AtPt(o) /\ o.pt.alive /\ o.pt.writable /\ ~o.panic /\ o.faults = <<>> /\ o.tracked = {}) =>
        (o.pt.infl = 0 /\ o.pt.timers = 0)
(* transport failures are reported naming the activity; nothing runs after the channel is gone *)
KindOfOp(op) == CASE op = "next" -> "read" [] op = "ready" -> "ready" [] op = "flush" -> "flush"
                  [] op = "close" -> "close" [] OTHER -> "write"
Inv_C09s(o) ==
  /\ BadOf(o, "C09") = {}
  /\ ~o.panic
  /\ (o.stream \in {"read", "ready", "write", "flush", "close"}) =>
        (o.faults # <<>> /\ o.stream = KindOfOp(o.faults[1]))
  /\ (AtPt(o) /\ o.faults # <<>> /\ ~o.panic) => o.stream # "live"
  /\ (AtQ(o) /\ o.stream # "live") =>
        \A h \in DOMAIN o.inc : (~o.inc[h].done /\ o.inc[h].started /\ o.inc[h].ended # "answered") => o.inc[h].dropped
(* the channel keeps running until everything in flight has ended, and then ends *)
Inv_C10s(o) ==
  /\ BadOf(o, "C10") = {}
  \* the peer closed (whether or not the channel has looked yet), nothing is in flight, everything that could wake
  \* the channel has happened: the stream has ended
  /\ (AtQ(o) /\ o.eof # "none" /\ o.faults = <<>> /\ ~o.panic /\ o.tracked = {} /\ ~o.f6) => o.stream # "live"
  \* "and only then ends" is not "some time later": once the end of input has been read, nothing is in flight, nothing is
  \* unflushed and the sink is writable, the stream has ended at the next settle point - without the clock having to move
  /\ (AtPt(o) /\ o.pt.writable /\ o.eof = "seen" /\ o.faults = <<>> /\ ~o.panic /\ o.tracked = {} /\ ~o.f6 /\ o.unflushed = 0)
       => o.stream # "live"
(* server-side wake-ups: at a settle point with the sink writable everything pushed was read *)
Inv_C02s(o) ==
  /\ ~o.spin
  /\ (AtPt(o) /\ o.pt.alive /\ o.pt.writable /\ ~o.panic /\ ~o.f6) => (o.pt.inq = 0 /\ o.eof # "pushed")

=============================================================================
