--------------------------- MODULE RoundRobinInd ---------------------------
(***************************************************************************)
(* Typed (Apalache) restatement of the RoundRobin part of spec/Stubs.tla   *)
(* for an inductive argument of the balance law of property C20 that does  *)
(* not depend on the number of picks or of pickers: the shared cursor is   *)
(* an arbitrary natural number, every pick is one atomic fetch-add         *)
(* (AtomicCycle::next), any number of threads may pick in any order.       *)
(* Split = TRUE is the deliberately wrong load-then-store variant: one     *)
(* stale store is enough to break the invariant, so its step must fail.    *)
(***************************************************************************)
EXTENDS Integers, Apalache

CONSTANTS
  \* @type: Int;
  N,
  \* @type: Bool;
  Split

VARIABLES
  \* @type: Int;
  cursor,
  \* @type: Int -> Int;
  count,
  \* @type: Int;
  loaded      \* Split only: a cursor value some thread has read and not yet stored back (-1 = none)

ConstInit == N \in 1..5 /\ Split = FALSE
ConstInitSplit == N \in 2..5 /\ Split = TRUE

B == {b \in 0..4 : b < N}
Init == cursor = 0 /\ count = [b \in B |-> 0] /\ loaded = -1

Pick == ~Split /\ count' = [count EXCEPT ![cursor % N] = @ + 1] /\ cursor' = cursor + 1 /\ UNCHANGED loaded
Load == Split /\ loaded = -1 /\ loaded' = cursor /\ UNCHANGED <<cursor, count>>
OtherPick == Split /\ count' = [count EXCEPT ![cursor % N] = @ + 1] /\ cursor' = cursor + 1 /\ UNCHANGED loaded
Store == Split /\ loaded # -1 /\ cursor' = loaded + 1 /\ count' = [count EXCEPT ![loaded % N] = @ + 1] /\ loaded' = -1
Next == Pick \/ Load \/ OtherPick \/ Store

(* balance: any two backends differ by at most one *)
Balance == \A a \in B, b \in B : count[a] - count[b] <= 1

(* inductive invariant: backend b has been picked once per completed cycle plus once if the current cycle passed it *)
IndInv ==
  /\ N \in 1..5 /\ cursor >= 0 /\ loaded >= -1 /\ loaded <= cursor
  /\ DOMAIN count = B
  /\ \A b \in B : count[b] = (cursor \div N) + (IF b < cursor % N THEN 1 ELSE 0)

IndInit == cursor = Gen(1) /\ count = Gen(5) /\ loaded = Gen(1) /\ IndInv
Probe == ~(cursor = 7 /\ N = 3)
=============================================================================
