------------------------------ MODULE KeysInd ------------------------------
(***************************************************************************)
(* Typed (Apalache) restatement of spec/ChannelsPerKey.tla for an          *)
(* inductive-invariant argument of property C13 that does not depend on    *)
(* the number of arrivals: channel and tracker identifiers are arbitrary   *)
(* integers, queues and the set of live channels are only bounded in size  *)
(* by the Gen(..) bound of the inductive step.                             *)
(*                                                                         *)
(* Differences from ChannelsPerKey.tla (all of them enlarge the behaviours)*)
(*  - wakers are dropped: the limiter may be polled at any time;           *)
(*  - Arc::strong_count of a tracker is derived (number of live channels   *)
(*    and of the held, not yet yielded channel referring to it) instead of *)
(*    being stored;                                                        *)
(*  - no arrival bound, no listener end (an ended listener only removes    *)
(*    behaviours).                                                         *)
(* FixF1 = FALSE is the code before the repair of finding F1: the check    *)
(* of the inductive step then fails, as it must.                           *)
(***************************************************************************)
EXTENDS Integers, Sequences, FiniteSets, Apalache

CONSTANTS
  \* @type: Int;
  Limit,
  \* @type: Bool;
  FixF1

Keys == {"a", "b"}

\* @typeAlias: chan = { id: Int, key: Str, tr: Int };
KeysInd_aliases == TRUE

VARIABLES
  \* @type: Seq({ id: Int, key: Str });
  lq,
  \* @type: Int;
  nextCh,
  \* @type: Str -> Int;
  cur,          \* key_counts: key -> tracker id (0 = no entry)
  \* @type: Int;
  nextTr,
  \* @type: Set($chan);
  chans,        \* live yielded channels
  \* @type: Seq(Str);
  notif,        \* dropped_keys queue
  \* @type: Str;
  pc,
  \* @type: Str;
  lres,
  \* @type: Str;
  cres,
  \* @type: Set($chan);
  held          \* the channel accepted by poll_listener in this iteration (at most one)

vars == <<lq, nextCh, cur, nextTr, chans, notif, pc, lres, cres, held>>

ConstInit == Limit \in 1..3 /\ FixF1 = TRUE
ConstInitBroken == Limit \in 1..3 /\ FixF1 = FALSE

\* strong count of tracker t
Cnt(t) == Cardinality({c \in chans \union held : c.tr = t})

Init ==
  /\ lq = <<>> /\ nextCh = 0
  /\ cur = [k \in Keys |-> 0]
  /\ nextTr = 0 /\ chans = {} /\ notif = <<>>
  /\ pc = "idle" /\ lres = "none" /\ cres = "none" /\ held = {}

Arrive(k) ==
  /\ nextCh' = nextCh + 1
  /\ lq' = Append(lq, [id |-> nextCh + 1, key |-> k])
  /\ UNCHANGED <<cur, nextTr, chans, notif, pc, lres, cres, held>>

Close(c) ==
  /\ c \in chans
  /\ chans' = chans \ {c}
  /\ notif' = IF Cnt(c.tr) = 1 THEN Append(notif, c.key) ELSE notif
  /\ UNCHANGED <<lq, nextCh, cur, nextTr, pc, lres, cres, held>>

P_Begin == pc = "idle" /\ pc' = "listener" /\ UNCHANGED <<lq, nextCh, cur, nextTr, chans, notif, lres, cres, held>>

P_Listener ==
  /\ pc = "listener" /\ pc' = "closed"
  /\ IF Len(lq) > 0 THEN
       LET ch == Head(lq).id
           k == Head(lq).key
           t == cur[k] IN
       /\ lq' = Tail(lq)
       /\ IF t = 0 \/ (t # 0 /\ Cnt(t) = 0) THEN            \* vacant entry, or dead Weak: new tracker
            /\ nextTr' = nextTr + 1
            /\ cur' = [cur EXCEPT ![k] = nextTr + 1]
            /\ held' = {[id |-> ch, key |-> k, tr |-> nextTr + 1]} /\ lres' = "ok"
          ELSE IF Cnt(t) >= Limit THEN
            /\ lres' = "shed" /\ held' = {} /\ UNCHANGED <<nextTr, cur>>
          ELSE
            /\ held' = {[id |-> ch, key |-> k, tr |-> t]} /\ lres' = "ok" /\ UNCHANGED <<nextTr, cur>>
     ELSE /\ lres' = "pending" /\ held' = {} /\ UNCHANGED <<lq, nextTr, cur>>
  /\ UNCHANGED <<nextCh, chans, notif, cres>>

P_Closed ==
  /\ pc = "closed" /\ pc' = "match"
  /\ IF Len(notif) > 0 THEN
       LET k == Head(notif) IN
       /\ notif' = Tail(notif) /\ cres' = "ready"
       /\ cur' = IF FixF1 /\ cur[k] # 0 /\ Cnt(cur[k]) > 0 THEN cur ELSE [cur EXCEPT ![k] = 0]
     ELSE cres' = "pending" /\ UNCHANGED <<notif, cur>>
  /\ UNCHANGED <<lq, nextCh, nextTr, chans, lres, held>>

P_Match ==
  /\ pc = "match" /\ lres' = "none" /\ cres' = "none"
  /\ IF lres = "ok" THEN pc' = "idle" /\ chans' = chans \union held /\ held' = {}
     ELSE IF lres = "shed" \/ cres = "ready" THEN pc' = "listener" /\ UNCHANGED <<chans, held>>
     ELSE pc' = "idle" /\ UNCHANGED <<chans, held>>
  /\ UNCHANGED <<lq, nextCh, cur, nextTr, notif>>

Next ==
  \/ \E k \in Keys : Arrive(k)
  \/ \E c \in chans : Close(c)
  \/ P_Begin \/ P_Listener \/ P_Closed \/ P_Match

(* ------------------------------ property ------------------------------ *)
LiveOf(k) == {c \in chans : c.key = k}
Safety == \A k \in Keys : Cardinality(LiveOf(k)) <= Limit

(* ------------------------- inductive invariant ------------------------- *)
All == chans \union held
TypeOK ==
  /\ Limit \in 1..3
  /\ nextCh >= 0 /\ nextTr >= 0
  /\ pc \in {"idle", "listener", "closed", "match"}
  /\ lres \in {"none", "ok", "shed", "pending"} /\ cres \in {"none", "ready", "pending"}
  /\ \A k \in Keys : cur[k] >= 0 /\ cur[k] <= nextTr
  /\ DOMAIN cur = Keys
  /\ \A c \in All : c.key \in Keys /\ c.id >= 1 /\ c.id <= nextCh /\ c.tr >= 1 /\ c.tr <= nextTr
  /\ \A i \in DOMAIN lq : lq[i].key \in Keys /\ lq[i].id >= 1 /\ lq[i].id <= nextCh
  /\ \A i \in DOMAIN notif : notif[i] \in Keys
  /\ Cardinality(held) <= 1

Unique ==
  /\ \A c, d \in All : c.id = d.id => c = d
  /\ \A i, j \in DOMAIN lq : lq[i].id = lq[j].id => i = j
  /\ \A i \in DOMAIN lq : \A c \in All : c.id # lq[i].id

PcOK ==
  /\ (held # {}) <=> (lres = "ok")
  /\ lres # "none" => pc \in {"closed", "match"}
  /\ cres # "none" => pc = "match"
  /\ pc \in {"idle", "listener"} => lres = "none"
  /\ pc \in {"idle", "listener", "closed"} => cres = "none"

\* the heart: every live (or held) channel of key k hangs off the key's current entry,
\* and that entry's count respects the limit
Tracked ==
  /\ \A c \in All : cur[c.key] = c.tr
  /\ \A k \in Keys : cur[k] # 0 => Cnt(cur[k]) <= Limit

IndInv == TypeOK /\ Unique /\ PcOK /\ Tracked

\* arbitrary bounded-size state for the inductive step
IndInit ==
  /\ lq = Gen(3) /\ notif = Gen(4) /\ chans = Gen(5) /\ held = Gen(1)
  /\ nextCh = Gen(1) /\ nextTr = Gen(1) /\ cur = Gen(2)
  /\ pc = Gen(1) /\ lres = Gen(1) /\ cres = Gen(1)
  /\ IndInv
\* vacuity probes: each must be reported violated from IndInit
Probe1 == ~(Cardinality(chans) = 4 /\ Len(lq) = 3 /\ Len(notif) = 4 /\ held # {} /\ pc = "match")
Probe2 == ~(\E k \in Keys : Cardinality(LiveOf(k)) = Limit /\ Limit = 3)
=============================================================================
