----------------------------- MODULE Trace_Glue -----------------------------
(***************************************************************************)
(* Observer / trace driver for C17: for every enumerated service shape the *)
(* generated client call must reach exactly the implementor's method of    *)
(* the same name with the same arguments in the same order and the         *)
(* request's context, return that invocation's result, and report the name *)
(* "<Service>.<method>"; shapes Glue.tla predicts as rejected (reserved or *)
(* colliding names) must fail to compile.                                  *)
(***************************************************************************)
EXTENDS Naturals, Integers, Sequences, FiniteSets, TLC, Json, IOUtils

Rec == ndJsonDeserialize(IOEnv.TRACE)
VARIABLES l, scn, svcname, accepted, pend, bad, bad16
tvars == <<l, scn, svcname, accepted, pend, bad, bad16>>
NoPend == [stage |-> "none", m |-> "", args |-> "", dl |-> 0, tr |-> "", ret |-> ""]
TInit == l = 1 /\ scn = 0 /\ svcname = "" /\ accepted = TRUE /\ pend = NoPend /\ bad = {} /\ bad16 = {}

Step ==
  /\ l <= Len(Rec)
  /\ l' = l + 1
  /\ LET e == Rec[l] IN
     /\ scn' = e.scn
     \* C16: a peer answering with a well-formed response of another rpc's type must not crash the calling task
     /\ bad16' = IF e.ev = "Reset" THEN {}
                 ELSE IF e.ev = "WrongVariant" /\ e.panicked
                   THEN bad16 \cup {"the generated client panicked on a well-formed response of another rpc's type"} ELSE bad16
     /\ CASE e.ev = "Reset" -> svcname' = e.svcname /\ accepted' = e.accepted /\ pend' = NoPend /\ bad' = {}
          [] e.ev = "ClientCall" ->
               /\ pend' = [stage |-> "call", m |-> e.m, args |-> e.args, dl |-> e.dl, tr |-> e.tr, ret |-> ""]
               /\ bad' = IF pend.stage \in {"none", "done"} THEN bad ELSE bad \cup {"previous call did not complete"}
               /\ UNCHANGED <<svcname, accepted>>
          [] e.ev = "ImplCall" ->
               /\ bad' = IF pend.stage = "call" /\ e.m = pend.m /\ e.args = pend.args /\ e.dl = pend.dl /\ e.tr = pend.tr THEN bad
                         ELSE bad \cup {"implementor invoked with another method, other arguments/order or another context"}
               /\ pend' = [pend EXCEPT !.stage = "impl", !.ret = e.ret]
               /\ UNCHANGED <<svcname, accepted>>
          [] e.ev = "ClientResult" ->
               /\ bad' = IF pend.stage = "impl" /\ e.m = pend.m /\ e.res = ("Ok(" \o pend.ret \o ")") THEN bad
                         ELSE bad \cup {"caller did not receive that invocation's result"}
               /\ pend' = [pend EXCEPT !.stage = "done"]
               /\ UNCHANGED <<svcname, accepted>>
          [] e.ev = "Name" ->
               /\ bad' = IF e.name = (svcname \o "." \o e.m) \/ (e.raw /\ e.name = (svcname \o ".r#" \o e.m)) THEN bad
                         ELSE bad \cup {"request name is not <Service>.<method>"}
               /\ UNCHANGED <<svcname, accepted, pend>>
          [] e.ev = "CompileResult" ->
               /\ bad' = IF ~accepted /\ e.ok THEN bad \cup {"a reserved or colliding method name was accepted by the macro"} ELSE bad
               /\ UNCHANGED <<svcname, accepted, pend>>
          [] e.ev = "EndScenario" ->
               /\ bad' = IF accepted /\ pend.stage \notin {"none", "done"} THEN bad \cup {"call did not complete"} ELSE bad
               /\ UNCHANGED <<svcname, accepted, pend>>
          [] OTHER -> UNCHANGED <<svcname, accepted, pend, bad>>

TSpec == TInit /\ [][Step]_tvars
Report(name, ok, why) == ok \/ PrintT(<<"REPORT", name, scn, l - 1, why>>)
Verdict_C17 == Report("Inv_C17", bad = {}, bad)
Verdict_C16 == Report("Inv_C16glue", bad16 = {}, bad16)
Accepted == l = Len(Rec) + 1 => PrintT(<<"ACCEPTED", Len(Rec)>>)
=============================================================================
