------------------------------- MODULE MC_Wire -------------------------------
EXTENDS Wire, Json
LensA == <<1, 2, 0>>
LensB == <<2, 1>>
LensC == <<0, 3, 1>>
LensD == <<1, 1, 1, 2>>
View == <<nsent, wbuf, hold, pipe, rbuf, delivered, wclosed, eos, pend, flushed>>
ExportJson == (ExportSched /\ ~ENABLED Next) => PrintT("SCHED " \o ToJson([steps |-> sched]))
=============================================================================
