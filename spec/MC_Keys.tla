------------------------------ MODULE MC_Keys ------------------------------
EXTENDS ChannelsPerKey, Json
View == MechVars
ExportJson == (ExportSched /\ ~ENABLED Next) => PrintT("SCHED " \o ToJson(sched))
=============================================================================
