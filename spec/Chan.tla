-------------------------------- MODULE Chan --------------------------------
(***************************************************************************)
(* The in-memory transports (tarpc::transport::channel), one direction     *)
(* A -> B of a pair of endpoints.                                          *)
(*   unbounded(): tokio unbounded mpsc.  poll_ready is Ok unless the peer  *)
(*     endpoint is gone; poll_flush / poll_close do nothing (closing does  *)
(*     NOT end the peer's stream, only dropping the endpoint does).        *)
(*   bounded(cap): futures mpsc channel(cap) with one sender: the buffer   *)
(*     takes cap + 1 messages; the send that makes it cap + 1 parks the    *)
(*     sender, every message the receiver takes unparks it; poll_ready and *)
(*     poll_flush are Pending while parked; poll_close disconnects the     *)
(*     sender (the peer's stream ends after what is buffered).             *)
(* Dropping an endpoint drops both of its halves.                          *)
(* Property C15 for these transports: what is read is, item by item, what  *)
(* was accepted; a message accepted while the peer is alive is readable at *)
(* once; the stream ends only after the writer is gone (dropped, or closed *)
(* for the bounded one) and everything accepted was read.                  *)
(***************************************************************************)
EXTENDS Naturals, Sequences, TLC

CONSTANTS Msgs, Cap, Bounded, ExportSched
VARIABLES q, sent, delivered, aAlive, bAlive, aClosed, credit, parked, eos, sched
vars == <<q, sent, delivered, aAlive, bAlive, aClosed, credit, parked, eos, sched>>

Rec(a) == IF ExportSched THEN sched' = Append(sched, a) ELSE sched' = sched
Init == /\ q = <<>> /\ sent = 0 /\ delivered = <<>> /\ aAlive = TRUE /\ bAlive = TRUE /\ aClosed = FALSE
        /\ credit = FALSE /\ parked = FALSE /\ eos = FALSE /\ sched = <<>>

ReadyRes == IF ~bAlive \/ aClosed THEN "err" ELSE IF Bounded /\ parked THEN "pending" ELSE "ok"
Ready == /\ aAlive /\ ~credit
         /\ credit' = (ReadyRes = "ok")
         /\ Rec([a |-> "ready", res |-> ReadyRes])
         /\ UNCHANGED <<q, sent, delivered, aAlive, bAlive, aClosed, parked, eos>>
Send == /\ aAlive /\ credit /\ sent < Msgs
        /\ credit' = FALSE
        /\ IF bAlive
             THEN /\ q' = Append(q, sent + 1) /\ sent' = sent + 1
                  /\ parked' = (Bounded /\ Len(q) + 1 > Cap)
                  /\ Rec([a |-> "send", res |-> "ok"])
             ELSE /\ Rec([a |-> "send", res |-> "err"]) /\ UNCHANGED <<q, sent, parked>>
        /\ UNCHANGED <<delivered, aAlive, bAlive, aClosed, eos>>
FlushRes == IF Bounded /\ parked /\ bAlive /\ ~aClosed THEN "pending" ELSE "ok"
Flush == /\ aAlive /\ Rec([a |-> "flush", res |-> FlushRes])
         /\ UNCHANGED <<q, sent, delivered, aAlive, bAlive, aClosed, credit, parked, eos>>
Close == /\ aAlive /\ ~aClosed /\ FlushRes = "ok"
         /\ aClosed' = Bounded /\ credit' = FALSE
         /\ Rec([a |-> "close", res |-> "ok"])
         /\ UNCHANGED <<q, sent, delivered, aAlive, bAlive, parked, eos>>
WriterGone == ~aAlive \/ aClosed
Recv == /\ bAlive /\ ~eos
        /\ IF q # <<>>
             THEN /\ delivered' = Append(delivered, Head(q)) /\ q' = Tail(q) /\ parked' = FALSE
                  /\ Rec([a |-> "recv", res |-> "item"]) /\ UNCHANGED eos
             ELSE /\ eos' = WriterGone
                  /\ Rec([a |-> "recv", res |-> IF WriterGone THEN "eos" ELSE "pending"])
                  /\ UNCHANGED <<q, delivered, parked>>
        /\ UNCHANGED <<sent, aAlive, bAlive, aClosed, credit>>
DropA == /\ aAlive /\ aAlive' = FALSE /\ credit' = FALSE /\ Rec([a |-> "dropA"])
         /\ UNCHANGED <<q, sent, delivered, bAlive, aClosed, parked, eos>>
DropB == /\ bAlive /\ bAlive' = FALSE /\ q' = <<>> /\ Rec([a |-> "dropB"])
         /\ UNCHANGED <<sent, delivered, aAlive, aClosed, credit, parked, eos>>

Next == Ready \/ Send \/ Flush \/ Close \/ Recv \/ DropA \/ DropB
Spec == Init /\ [][Next]_vars

Inv_Prefix == \A i \in DOMAIN delivered : delivered[i] = i
Inv_Eos == eos => (WriterGone /\ q = <<>> /\ Len(delivered) = sent)
Inv_NothingLost == bAlive => Len(delivered) + Len(q) = sent
Inv_Room == Bounded => Len(q) <= Cap + 1
=============================================================================
