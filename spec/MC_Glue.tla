------------------------------ MODULE MC_Glue ------------------------------
EXTENDS Glue, Json
(* a service all of whose rpcs are gated off is an empty service: not a shape of interest (rustc refuses the empty match) *)
ExportJson == (Len(svc) > 0 /\ \E i \in DOMAIN svc : svc[i].gate # "off") => PrintT("SCHED " \o ToJson([methods |-> [i \in DOMAIN svc |-> [name |-> svc[i].name, raw |-> svc[i].name \in RawOnly,
                         variant |-> Variant(svc[i]), nargs |-> svc[i].nargs, argty |-> svc[i].argty, ret |-> svc[i].ret, gate |-> svc[i].gate]],
                         attr |-> attr, accepted |-> Accepted]))
=============================================================================
