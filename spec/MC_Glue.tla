------------------------------ MODULE MC_Glue ------------------------------
EXTENDS Glue, Json
ExportJson == Len(svc) > 0 => PrintT("SCHED " \o ToJson([methods |-> [i \in DOMAIN svc |-> [name |-> svc[i].name, raw |-> svc[i].name \in RawOnly,
                         variant |-> Variant(svc[i]), nargs |-> svc[i].nargs, argty |-> svc[i].argty, ret |-> svc[i].ret]],
                         attr |-> attr, accepted |-> Accepted]))
=============================================================================
