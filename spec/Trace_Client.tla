---------------------------- MODULE Trace_Client ----------------------------
(***************************************************************************)
(* Trace driver for the client observer: replays an ndjson trace recorded  *)
(* from the real client (harness family `client`) through ObsClient, one   *)
(* event per step (all events fully logged => linear), and evaluates the   *)
(* property invariants in every state.  Violations are reported, not       *)
(* fatal, so that every scenario of a run is judged.                       *)
(***************************************************************************)
EXTENDS Naturals, Integers, Sequences, FiniteSets, TLC, Json, IOUtils, ObsClient

Rec == ndJsonDeserialize(IOEnv.TRACE)

VARIABLES l, scn, o
tvars == <<l, scn, o>>

TInit == l = 1 /\ scn = 0 /\ o = OInit(1, 1)

Apply(e, s) ==
  CASE e.ev = "CallStart"    -> OCallStart(s, e.c, e.dl, e.tr, e.span, e.sampled)
    [] e.ev = "PollStart"    -> IF e.who = "d" THEN OPollStart(s, "d")
                                ELSE OCallPolled(s, e.c)
    [] e.ev = "PollEnd"      -> OPollEnd(s, e.who, e.res, e.infl, e.timers)
    [] e.ev = "CallResolved" -> OResolved(s, e.c, e.kind, e.body)
    [] e.ev = "DropEnter"    -> ODropEnter(s, e.c)
    [] e.ev = "CallAbandon"  -> OAbandon(s, e.c)
    [] e.ev = "WireOut"      -> OWireOut(s, e.item)
    [] e.ev = "WireIn"       -> OHanded(s, e.item)
    [] e.ev = "WireInEof"    -> OEofSeen(s)
    [] e.ev = "PeerPush"     -> OPush(s, e.item)
    [] e.ev = "PeerEof"      -> OEofPushed(s)
    [] e.ev = "Fault"        -> OFault(s, e.op, e.kind, e.c)
    [] e.ev = "SinkOp"       -> OSinkOp(s, e.op, e.res, e.unflushed)
    [] e.ev = "DispatchDone" -> ODispDone(s, e.res)
    [] e.ev = "DispatchDropped" -> ODispDropped(s)
    [] e.ev = "Handles"      -> OHandles(s, e.left)
    [] e.ev = "Panic"        -> OPanic(s, e.who)
    [] e.ev = "Spin"         -> OSpin(s)
    [] e.ev = "Settled"      -> OPoint(s, "settled", e.inq, e.writable, e.dispatch_alive, e.infl, e.timers)
    [] e.ev = "Quiescent"    -> OPoint(s, "quiescent", e.inq, e.writable, e.dispatch_alive, e.infl, e.timers)
    [] OTHER                 -> s

Step ==
  /\ l <= Len(Rec)
  /\ l' = l + 1
  /\ LET e == Rec[l] IN
     /\ scn' = e.scn
     /\ o' = IF e.ev = "Reset" THEN OInit(e.maxInFlight, e.buf)
             ELSE Apply(e, OTick(o, e.t))

TSpec == TInit /\ [][Step]_tvars

Report(name, ok) == ok \/ PrintT(<<"REPORT", name, scn, l - 1, {}>>)

Verdict_C01 == Report("Inv_C01a", Inv_C01a(o)) /\ Report("Inv_C01b", Inv_C01b(o))
               /\ Report("Inv_C01c", Inv_C01c(o)) /\ Report("Inv_C01d", Inv_C01d(o))
               /\ Report("Inv_C01e", Inv_C01e(o))
               \* "discarded without disturbing any other call": whatever the peer sends, the dispatch and the calls do not panic
               /\ Report("Inv_C01f", ~o.panic)
Verdict_C02 == Report("Inv_C02a", Inv_C02a(o)) /\ Report("Inv_C02b", Inv_C02b(o)) /\ Report("Inv_C02c", Inv_C02c(o))
               /\ Report("Inv_C02d", Inv_C02d(o)) /\ Report("Inv_C02e", Inv_C02e(o))
Verdict_C03 == Report("Inv_C03a", Inv_C03a(o)) /\ Report("Inv_C03b", Inv_C03b(o))
               /\ Report("Inv_C03c", Inv_C03c(o)) /\ Report("Inv_C03d", Inv_C03d(o))
Verdict_C05 == Report("Inv_C05a", Inv_C05a(o)) /\ Report("Inv_C05b", Inv_C05b(o)) /\ Report("Inv_C05c", Inv_C05c(o))
Verdict_C09 == Report("Inv_C09a", Inv_C09a(o)) /\ Report("Inv_C09b", Inv_C09b(o)) /\ Report("Inv_C09d", Inv_C09d(o))
               \* "none hangs" and "failing to write one request fails only that call": the others are still transmitted and resolved
               /\ Report("Inv_C09e", Inv_C02a(o) /\ Inv_C02d(o))
Verdict_C10 == Report("Inv_C10a", Inv_C10a(o)) /\ Report("Inv_C10b", Inv_C10b(o))
Verdict_C11 == Report("Inv_C11a", Inv_C11a(o)) /\ Report("Inv_C11c", Inv_C11c(o))
Verdict_C14 == Report("Inv_C14", Inv_C14(o))
Verdict_C18 == Report("Inv_C18a", Inv_C18a(o)) /\ Report("Inv_C18b", Inv_C18b(o))
Verdict_All == Verdict_C01 /\ Verdict_C02 /\ Verdict_C03 /\ Verdict_C05 /\ Verdict_C09
               /\ Verdict_C10 /\ Verdict_C11 /\ Verdict_C14 /\ Verdict_C18

Accepted == l = Len(Rec) + 1 => PrintT(<<"ACCEPTED", Len(Rec)>>)
=============================================================================
