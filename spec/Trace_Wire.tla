----------------------------- MODULE Trace_Wire -----------------------------
(***************************************************************************)
(* Observer + trace driver for the wire family (C15, C16, C07).            *)
(*                                                                         *)
(* rt scenarios: the sequence of items read must be, item by item, the     *)
(* sequence written (Wire.tla's Delivered-is-a-prefix-of-Sent, with the    *)
(* documented degradations applied), complete at end-of-stream / when the  *)
(* reader goes idle, and end-of-stream must follow the writer's drop.      *)
(* Deadlines travel as remaining time: Wire.tla's Rebase.                  *)
(***************************************************************************)
EXTENDS Naturals, Integers, Sequences, FiniteSets, TLC, Json, IOUtils

Rec == ndJsonDeserialize(IOEnv.TRACE)

VARIABLES l, scn, kind, codec, transit, written, nread, wend, bad15, bad16, bad07, liveinfo, age
tvars == <<l, scn, kind, codec, transit, written, nread, wend, bad15, bad16, bad07, liveinfo, age>>

NoLive == [malformed |-> FALSE, softbad |-> FALSE, probeYield |-> FALSE, err |-> FALSE]
TInit == /\ l = 1 /\ scn = 0 /\ kind = "" /\ codec = "" /\ transit = 0 /\ written = <<>> /\ nread = 0 /\ wend = FALSE
         /\ bad15 = {} /\ bad16 = {} /\ bad07 = {} /\ liveinfo = NoLive /\ age = 0

Panicked == bad16 \cap {"panic", "Sig_TimerRangeExceededOnLongIdleConnection"} # {}
Portable == {"NotFound", "PermissionDenied", "ConnectionRefused", "ConnectionReset", "ConnectionAborted",
             "NotConnected", "AddrInUse", "AddrNotAvailable", "BrokenPipe", "AlreadyExists", "WouldBlock",
             "InvalidInput", "InvalidData", "TimedOut", "WriteZero", "Interrupted", "Other", "UnexpectedEof"}
Degrade(k) == IF k = "" \/ k \in Portable THEN k ELSE "Other"
IsMem == codec \in {"mem-unbounded", "mem-bounded"}

(* Wire.tla Rebase: deadline D written at te, decoded at td *)
RebaseOK(D, te, td, Dp) ==
  IF IsMem THEN Dp = D
  ELSE IF D >= te THEN (D <= Dp /\ Dp <= D + (td - te)) ELSE Dp = td

SameItem(w, r) ==
  /\ w.kind = r.kind /\ w.id = r.id /\ w.body = r.body /\ w.bodylen = r.bodylen
  /\ w.tr = r.tr /\ w.span = r.span /\ w.sampled = r.sampled
  /\ r.ekind = (IF IsMem THEN w.ekind ELSE Degrade(w.ekind))

Step ==
  /\ l <= Len(Rec)
  /\ l' = l + 1
  /\ (Rec[l].ev # "Reset" => age' = age)
  /\ LET e == Rec[l] IN
     /\ scn' = e.scn
     /\ CASE e.ev = "Reset" ->
               /\ kind' = e.kind /\ codec' = e.codec /\ transit' = e.transit /\ written' = <<>> /\ nread' = 0 /\ wend' = FALSE
               /\ bad15' = {} /\ bad16' = {} /\ bad07' = {} /\ liveinfo' = NoLive /\ age' = e.age_days
          [] e.ev = "Written" ->
               /\ written' = Append(written, [d |-> e.d, t |-> e.t])
               /\ UNCHANGED <<kind, codec, transit, nread, wend, bad15, bad16, bad07, liveinfo>>
          [] e.ev = "WriterEnd" -> wend' = TRUE /\ UNCHANGED <<kind, codec, transit, written, nread, bad15, bad16, bad07, liveinfo>>
          [] e.ev = "Read" ->
               /\ nread' = nread + 1
               /\ bad15' = IF nread + 1 > Len(written) THEN bad15 \cup {"item read that was never written"}
                           ELSE IF SameItem(written[nread + 1].d, e.d) THEN bad15
                           ELSE bad15 \cup {"item read differs from the item written at that position"}
               /\ bad07' = IF nread + 1 <= Len(written) /\ e.d.kind = "req"
                              /\ ~RebaseOK(written[nread + 1].d.dl, written[nread + 1].t, e.t, e.d.dl)
                             THEN bad07 \cup {"deadline observed after the hop is outside [D, D + transit] (or not 'now' for a passed one)"}
                             ELSE bad07
               /\ UNCHANGED <<kind, codec, transit, written, wend, bad16, liveinfo>>
          [] e.ev \in {"Eos", "ReaderIdle"} ->
               /\ bad15' = IF kind # "rt" THEN bad15
                           ELSE (IF e.n # Len(written) THEN bad15 \cup {"stream ended or went idle before everything written was delivered"} ELSE bad15)
                                \cup (IF e.ev = "Eos" /\ ~wend THEN {"end of stream although the writer is still open"} ELSE {})
                                \cup (IF e.ev = "ReaderIdle" /\ wend THEN {"no end of stream after the writer was dropped"} ELSE {})
               /\ UNCHANGED <<kind, codec, transit, written, nread, wend, bad16, bad07, liveinfo>>
          [] e.ev \in {"ReadErr", "WriteErr"} ->
               /\ bad15' = IF kind = "rt" THEN bad15 \cup {"transport error on well-formed traffic"} ELSE bad15
               /\ UNCHANGED <<kind, codec, transit, written, nread, wend, bad16, bad07, liveinfo>>
          [] e.ev = "Kind" ->
               /\ bad15' = IF e.got = (IF e.portable THEN e.name ELSE "Other") THEN bad15
                           ELSE bad15 \cup {"error kind does not round-trip as documented"}
               /\ UNCHANGED <<kind, codec, transit, written, nread, wend, bad16, bad07, liveinfo>>
          [] e.ev = "Decoded" ->
               /\ nread' = nread + 1
               /\ bad07' = IF kind = "omit" /\ e.d.kind = "req" /\ e.d.dl # e.t + 10000
                             THEN bad07 \cup {"omitted deadline did not default to 10 s"} ELSE bad07
               /\ bad15' = IF kind = "omit" /\ e.d.kind = "cancel" /\ ~(e.d.tr = "0" /\ e.d.span = "0" /\ ~e.d.sampled /\ e.d.id = "9")
                             THEN bad15 \cup {"cancel without trace context not understood"}
                           ELSE IF kind = "omit" /\ e.d.kind = "req" /\ ~(e.d.id = "7" /\ e.d.body = "hello" /\ e.d.tr = "1" /\ e.d.span = "5" /\ e.d.sampled)
                             THEN bad15 \cup {"request without deadline not understood"} ELSE bad15
               /\ UNCHANGED <<kind, codec, transit, written, wend, bad16, liveinfo>>
          [] e.ev = "DecodeErr" ->
               /\ bad15' = IF kind = "omit" THEN bad15 \cup {"message with omitted optional field rejected"} ELSE bad15
               \* the first frame of the scenario is the request without deadline: rejecting it is not "the 10 s default"
               /\ bad07' = IF kind = "omit" /\ nread = 0 THEN bad07 \cup {"a request that omits its deadline was rejected instead of getting the 10 s default"} ELSE bad07
               /\ UNCHANGED <<kind, codec, transit, written, nread, wend, bad16, liveinfo>>
          [] e.ev = "Panic" ->
               /\ bad16' = bad16 \cup {IF age >= 430 THEN "Sig_TimerRangeExceededOnLongIdleConnection" ELSE "panic"}
               /\ UNCHANGED <<kind, codec, transit, written, nread, wend, bad15, bad07, liveinfo>>
          [] e.ev = "LiveFeed" ->
               /\ liveinfo' = [liveinfo EXCEPT !.malformed = @ \/ e.item = "garbage",
                                               !.softbad = @ \/ e.item \in {"truncated", "hugelen"}]
               /\ UNCHANGED <<kind, codec, transit, written, nread, wend, bad15, bad16, bad07>>
          [] e.ev = "LiveYield" ->
               /\ liveinfo' = [liveinfo EXCEPT !.probeYield = @ \/ e.probe]
               /\ UNCHANGED <<kind, codec, transit, written, nread, wend, bad15, bad16, bad07>>
          [] e.ev = "LiveErr" ->
               /\ liveinfo' = [liveinfo EXCEPT !.err = TRUE]
               /\ UNCHANGED <<kind, codec, transit, written, nread, wend, bad15, bad16, bad07>>
          [] e.ev = "LiveDone" ->
               /\ bad16' = bad16
                    \cup (IF ~liveinfo.malformed /\ ~liveinfo.softbad /\ ~Panicked
                             /\ ~(liveinfo.probeYield /\ e.probe_answered /\ ~e.ended)
                           THEN {"well-formed odd traffic stopped the connection from serving a following request"} ELSE {})
                    \cup (IF liveinfo.malformed /\ ~Panicked /\ ~(liveinfo.err /\ e.ended)
                           THEN {"malformed frame did not end the connection with an error"} ELSE {})
               /\ UNCHANGED <<kind, codec, transit, written, nread, wend, bad15, bad07, liveinfo>>
          [] e.ev = "Flood" ->
               \* a long run of responses for ids nobody asked for: the endpoint survives and keeps serving
               /\ bad16' = bad16 \cup (IF e.crashed THEN {"a flood of unsolicited responses crashed the client endpoint"} ELSE {})
                                 \cup (IF ~e.crashed /\ ~e.served THEN {"after a flood of unsolicited responses a well-formed call is no longer served"} ELSE {})
               /\ UNCHANGED <<kind, codec, transit, written, nread, wend, bad15, bad07, liveinfo>>
          [] e.ev = "ClientDl" ->
               /\ bad16' = IF e.panic THEN bad16 \cup {"caller-chosen deadline crashed the client"} ELSE bad16
               /\ UNCHANGED <<kind, codec, transit, written, nread, wend, bad15, bad07, liveinfo>>
          [] e.ev = "EndScenario" ->
               /\ bad15' = IF kind = "omit" /\ nread # 2 THEN bad15 \cup {"message with omitted optional field not delivered"} ELSE bad15
               /\ UNCHANGED <<kind, codec, transit, written, nread, wend, bad16, bad07, liveinfo>>
          [] OTHER -> UNCHANGED <<kind, codec, transit, written, nread, wend, bad15, bad16, bad07, liveinfo>>

TSpec == TInit /\ [][Step]_tvars
Report(name, ok, why) == ok \/ PrintT(<<"REPORT", name, scn, l - 1, why>>)
Verdict_C15 == Report("Inv_C15", bad15 = {}, bad15)
Verdict_C16 == Report("Inv_C16", bad16 = {}, bad16)
Verdict_C07 == Report("Inv_C07", bad07 = {}, bad07)
Verdict_All == Verdict_C15 /\ Verdict_C16 /\ Verdict_C07
Accepted == l = Len(Rec) + 1 => PrintT(<<"ACCEPTED", Len(Rec)>>)
=============================================================================
