------------------------------ MODULE Trace_Mem ------------------------------
(***************************************************************************)
(* Observer + trace driver for the harness family `mem`: the in-memory     *)
(* transports (tarpc::transport::channel::{unbounded, bounded}) driven     *)
(* step by step (ready / send / flush / close / recv / drop of either      *)
(* endpoint) along schedules enumerated from Chan.tla.  Property C15 for   *)
(* these transports, stated on what the two endpoints observe:             *)
(*   - an item read is the oldest item accepted and not yet read, field by *)
(*     field (kind, id, body, trace context, error kind, deadline);        *)
(*   - the reader is Pending only when nothing accepted is unread;         *)
(*   - end of stream only when the writer is gone (dropped; or closed, for *)
(*     the bounded transport) and nothing accepted is unread;              *)
(*   - no read error; no write error while the peer endpoint is alive and  *)
(*     the writer has not closed; no panic.                                *)
(***************************************************************************)
EXTENDS Naturals, Integers, Sequences, FiniteSets, TLC, Json, IOUtils

Rec == ndJsonDeserialize(IOEnv.TRACE)
VARIABLES l, scn, m
tvars == <<l, scn, m>>
MInit == [bounded |-> FALSE, q |-> <<>>, aAlive |-> TRUE, bAlive |-> TRUE, aClosed |-> FALSE, bad |-> {}]
TInit == l = 1 /\ scn = 0 /\ m = MInit

Bad(x, why) == [x EXCEPT !.bad = @ \cup {why}]
Same(w, r) == /\ w.kind = r.kind /\ w.id = r.id /\ w.body = r.body /\ w.bodylen = r.bodylen /\ w.tr = r.tr
              /\ w.span = r.span /\ w.sampled = r.sampled /\ w.ekind = r.ekind /\ w.dl = r.dl
WriterGone(x) == ~x.aAlive \/ (x.bounded /\ x.aClosed)

Step ==
  /\ l <= Len(Rec)
  /\ l' = l + 1
  /\ LET e == Rec[l] IN
     /\ scn' = e.scn
     /\ m' = CASE e.ev = "Reset" -> [MInit EXCEPT !.bounded = e.bounded]
               [] e.ev = "MSend" ->
                    IF e.res = "ok" THEN (IF m.bAlive THEN [m EXCEPT !.q = Append(@, e.d)] ELSE m)
                    ELSE IF m.bAlive /\ ~m.aClosed THEN Bad(m, "write error although the peer endpoint is alive") ELSE m
               [] e.ev = "MReady" ->
                    IF e.res = "err" /\ m.bAlive /\ ~m.aClosed THEN Bad(m, "sink reports an error although the peer endpoint is alive") ELSE m
               [] e.ev = "MRecv" ->
                    IF e.res = "item" THEN
                      (IF m.q = <<>> THEN Bad(m, "item read that was never written")
                       ELSE IF Same(Head(m.q), e.d) THEN [m EXCEPT !.q = Tail(@)]
                       ELSE Bad([m EXCEPT !.q = Tail(@)], "item read differs from the oldest unread item written"))
                    ELSE IF e.res = "pending" THEN
                      (IF m.q # <<>> THEN Bad(m, "reader is Pending although an accepted message is unread")
                       ELSE IF WriterGone(m) THEN Bad(m, "no end of stream although the writer is gone") ELSE m)
                    ELSE IF e.res = "eos" THEN
                      (IF m.q # <<>> THEN Bad(m, "end of stream before everything accepted was read")
                       ELSE IF ~WriterGone(m) THEN Bad(m, "end of stream although the writer is still open") ELSE m)
                    ELSE Bad(m, "read error")
               [] e.ev = "MClose" -> IF e.res = "ok" THEN [m EXCEPT !.aClosed = TRUE] ELSE m
               [] e.ev = "MDrop" -> IF e.who = "a" THEN [m EXCEPT !.aAlive = FALSE] ELSE [m EXCEPT !.bAlive = FALSE, !.q = <<>>]
               [] e.ev = "Panic" -> Bad(m, "panic")
               [] OTHER -> m

TSpec == TInit /\ [][Step]_tvars
Report(name, ok, why) == ok \/ PrintT(<<"REPORT", name, scn, l - 1, why>>)
Verdict_C15 == Report("Inv_C15mem", m.bad = {}, m.bad)
Verdict_C16 == Report("Inv_C16mem", "panic" \notin m.bad, {"panic"})
Accepted == l = Len(Rec) + 1 => PrintT(<<"ACCEPTED", Len(Rec)>>)
=============================================================================
