----------------------------- MODULE Trace_Keys -----------------------------
(***************************************************************************)
(* Trace driver: replays an ndjson trace recorded from the real            *)
(* MaxChannelsPerKey (harness family `keys`) through the observer ObsKeys. *)
(* One event per step; every event is fully logged, so validation is       *)
(* linear.  Scenarios are concatenated, separated by Reset events.         *)
(* A violated property invariant is *reported* (REPORT line) instead of    *)
(* stopping TLC, so that all scenarios of a run are judged.                *)
(***************************************************************************)
EXTENDS Naturals, Sequences, FiniteSets, TLC, Json, IOUtils, ObsKeys

Rec == ndJsonDeserialize(IOEnv.TRACE)

VARIABLES l, scn

tvars == <<l, scn, ObsVars>>

TInit == l = 1 /\ scn = 0 /\ ObsInit(1)

Ev == Rec[l]

Step ==
  /\ l <= Len(Rec)
  /\ l' = l + 1
  /\ LET e == Rec[l] IN
     /\ scn' = e.scn
     /\ CASE e.ev = "Reset"       -> ObsReset(e.n)
          [] e.ev = "Arrive"      -> ObsArrive(e.ch)
          [] e.ev = "Yield"       -> ObsYield(e.ch, e.k)
          [] e.ev = "Shed"        -> ObsShed(e.ch, e.k)
          [] e.ev = "Close"       -> ObsClose(e.ch)
          [] e.ev = "PollPending" -> ObsPending
          [] OTHER                -> UNCHANGED ObsVars

TSpec == TInit /\ [][Step]_tvars

Report(name, ok) == ok \/ PrintT(<<"REPORT", name, scn, l - 1>>)

Verdict_C13 ==
  /\ Report("Inv_C13a", Inv_C13a)
  /\ Report("Inv_C13b", Inv_C13b)
  /\ Report("Inv_C13c", Inv_C13c)

Accepted == l = Len(Rec) + 1 => PrintT(<<"ACCEPTED", Len(Rec)>>)
=============================================================================
