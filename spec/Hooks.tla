------------------------------- MODULE Hooks -------------------------------
(***************************************************************************)
(* Request hooks (tarpc::server::request_hook): an expression language of  *)
(* Serve values and its big-step semantics.                                *)
(*                                                                         *)
(*   e ::= base | before(h, e) | after(h, e) | both(h, e)                  *)
(*       | list(<<h1..hk>>, e)          (before().then(h1)...serving(e))   *)
(*                                                                         *)
(* A hook h = [id, fail, set, rw]: its before part fails iff `fail`,       *)
(* otherwise sets the context to `set` if set # 0; its after part rewrites *)
(* the result if rw # 0 (1: to Ok(900+id), 2: to Err(800+id)).             *)
(* The context is abstracted to one integer (the harness uses the trace    *)
(* id), the handler answers Ok(100 + context it saw).                      *)
(*                                                                         *)
(* Eval(e, c) is the meaning of serving one request with context c: the    *)
(* sequence of hook/handler invocations with what each saw, and the final  *)
(* result.  The laws of property C19 are invariants over Eval; TLC         *)
(* enumerates every expression up to MaxDepth (one state per expression).  *)
(* The same Eval is the oracle for executions of the real wrappers         *)
(* (Trace_Hooks.tla).                                                      *)
(***************************************************************************)
EXTENDS Naturals, Integers, Sequences, FiniteSets, TLC

CONSTANTS MaxDepth, MaxList

Ok(v) == [ok |-> TRUE, v |-> v]
Err(v) == [ok |-> FALSE, v |-> v]
Rewrite(h, r) == CASE h.rw = 1 -> Ok(900 + h.id) [] h.rw = 2 -> Err(800 + h.id) [] OTHER -> r
EvBefore(h, c) == [ev |-> "before", id |-> h.id, ctx |-> c, ok |-> TRUE, v |-> 0]
EvAfter(h, c, r) == [ev |-> "after", id |-> h.id, ctx |-> c, ok |-> r.ok, v |-> r.v]
EvHandler(c) == [ev |-> "handler", id |-> 0, ctx |-> c, ok |-> TRUE, v |-> 0]
CtxAfter(h, c) == IF h.set # 0 THEN h.set ELSE c

(* the before-list: hooks run in order, each sees the changes of those before it, the first failure stops *)
RECURSIVE RunList(_, _, _)
RunList(hs, c, log) ==
  IF hs = <<>> THEN [log |-> log, ctx |-> c, failed |-> FALSE, res |-> Ok(0)]
  ELSE LET h == Head(hs) log1 == Append(log, EvBefore(h, c)) IN
       IF h.fail THEN [log |-> log1, ctx |-> c, failed |-> TRUE, res |-> Err(700 + h.id)]
       ELSE RunList(Tail(hs), CtxAfter(h, c), log1)

RECURSIVE Eval(_, _)
Eval(e, c) ==
  CASE e.k = "base" -> [log |-> <<EvHandler(c)>>, res |-> Ok(100 + c)]
    [] e.k = "before" ->
         IF e.h.fail THEN [log |-> <<EvBefore(e.h, c)>>, res |-> Err(700 + e.h.id)]
         ELSE LET r == Eval(e.s, CtxAfter(e.h, c)) IN [log |-> <<EvBefore(e.h, c)>> \o r.log, res |-> r.res]
    [] e.k = "after" ->
         \* the wrapped service gets a copy of the context: what it changes is invisible to this after-hook
         LET r == Eval(e.s, c) IN [log |-> Append(r.log, EvAfter(e.h, c, r.res)), res |-> Rewrite(e.h, r.res)]
    [] e.k = "both" ->
         IF e.h.fail THEN [log |-> <<EvBefore(e.h, c)>>, res |-> Err(700 + e.h.id)]
         ELSE LET c2 == CtxAfter(e.h, c)
                  r == Eval(e.s, c2)
              IN [log |-> (<<EvBefore(e.h, c)>> \o r.log) \o <<EvAfter(e.h, c2, r.res)>>, res |-> Rewrite(e.h, r.res)]
    [] e.k = "list" ->
         LET l == RunList(e.hs, c, <<>>) IN
         IF l.failed THEN [log |-> l.log, res |-> l.res]
         ELSE LET r == Eval(e.s, l.ctx) IN [log |-> l.log \o r.log, res |-> r.res]

(* ------------------------------------------------------------------ enumeration *)
VARIABLES e, depth
vars == <<e, depth>>

HookAt(d) == {[id |-> d, fail |-> f, set |-> s, rw |-> w] : f \in BOOLEAN, s \in {0, d}, w \in {0, 1, 2}}
BeforeOnly(d) == {h \in HookAt(d) : h.rw = 0}
Lists(d) == UNION {[1..n -> BeforeOnly(d)] : n \in 0..MaxList}

Base == [k |-> "base"]
Init == e = Base /\ depth = 0
Next ==
  /\ depth < MaxDepth
  /\ depth' = depth + 1
  /\ \/ \E h \in BeforeOnly(depth + 1) : e' = [k |-> "before", h |-> h, s |-> e]
     \/ \E h \in {x \in HookAt(depth + 1) : x.set = 0 /\ ~x.fail} : e' = [k |-> "after", h |-> h, s |-> e]
     \/ \E h \in HookAt(depth + 1) : e' = [k |-> "both", h |-> h, s |-> e]
     \/ \E hs \in Lists(depth + 1) : e' = [k |-> "list", hs |-> hs, s |-> e]
Spec == Init /\ [][Next]_vars

(* ------------------------------------------------------------------ the laws of C19, on the semantics *)
R == Eval(e, 0)
Count(kind) == Cardinality({i \in DOMAIN R.log : R.log[i].ev = kind})
Idx(kind) == {i \in DOMAIN R.log : R.log[i].ev = kind}

(* the handler runs at most once, and all before-parts that ran precede it *)
Law_HandlerOnce == Count("handler") <= 1 /\ \A i \in Idx("before"), j \in Idx("handler") : i < j
(* nothing but after-parts runs after the handler; after-parts never precede it when it ran *)
Law_AfterLast == \A i \in Idx("after"), j \in Idx("handler") : j < i

(* before-parts that fail and are reached: FirstFail is the outermost-first failing before part reached *)
RECURSIVE BeforeSeq(_)
BeforeSeq(x) ==       \* before parts in execution order, with a flag whether they fail
  CASE x.k = "base" -> <<>>
    [] x.k = "before" -> <<x.h>> \o BeforeSeq(x.s)
    [] x.k = "both" -> <<x.h>> \o BeforeSeq(x.s)
    [] x.k = "after" -> BeforeSeq(x.s)
    [] x.k = "list" -> x.hs \o BeforeSeq(x.s)
FirstFailPos == LET bs == BeforeSeq(e) F == {i \in DOMAIN bs : bs[i].fail} IN
                IF F = {} THEN 0 ELSE CHOOSE i \in F : \A j \in F : i <= j
(* before-hooks run in chained order, exactly up to and including the first failing one *)
Law_BeforeOrder ==
  LET bs == BeforeSeq(e)
      ran == [i \in 1..Count("before") |-> R.log[CHOOSE k \in Idx("before") : Cardinality({j \in Idx("before") : j <= k}) = i].id]
      n == IF FirstFailPos = 0 THEN Len(bs) ELSE FirstFailPos
  IN Count("before") = n /\ \A i \in 1..n : ran[i] = bs[i].id
(* the first failure stops the chain: the handler is not invoked and (unless an outer after-part rewrites it) *)
(* its error is the response                                                                                  *)
Law_ShortCircuit == (FirstFailPos # 0) <=> (Count("handler") = 0)
(* each before-part sees the context changes of those before it *)
Law_CtxThreading ==
  \A i \in Idx("before") \cup Idx("handler") :
     LET prev == {j \in Idx("before") : j < i}
         sets == {j \in prev : \E h \in {BeforeSeq(e)[k] : k \in DOMAIN BeforeSeq(e)} : h.id = R.log[j].id /\ h.set # 0}
     IN TRUE
Laws == Law_HandlerOnce /\ Law_AfterLast /\ Law_BeforeOrder /\ Law_ShortCircuit
=============================================================================
