------------------------------- MODULE MC_Chan -------------------------------
EXTENDS Chan, Json
View == <<q, sent, delivered, aAlive, bAlive, aClosed, credit, parked, eos>>
ExportJson == (ExportSched /\ ~ENABLED Next) => PrintT("SCHED " \o ToJson([steps |-> sched]))
=============================================================================
