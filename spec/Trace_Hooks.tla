----------------------------- MODULE Trace_Hooks -----------------------------
(***************************************************************************)
(* Trace driver for C19: every execution of a real hook chain is compared, *)
(* invocation by invocation, with the semantics Eval of Hooks.tla.         *)
(***************************************************************************)
EXTENDS Naturals, Integers, Sequences, FiniteSets, TLC, Json, IOUtils

HM == INSTANCE Hooks WITH MaxDepth <- 4, MaxList <- 3, e <- [k |-> "base"], depth <- 0

Rec == ndJsonDeserialize(IOEnv.TRACE)

VARIABLES l, scn, exp, pos, bad
tvars == <<l, scn, exp, pos, bad>>

NoExp == [log |-> <<>>, res |-> [ok |-> TRUE, v |-> 0]]
TInit == l = 1 /\ scn = 0 /\ exp = NoExp /\ pos = 0 /\ bad = {}

Step ==
  /\ l <= Len(Rec)
  /\ l' = l + 1
  /\ LET ev == Rec[l] IN
     /\ scn' = ev.scn
     /\ CASE ev.ev = "Reset" ->
               /\ exp' = HM!Eval(ev.expr, 0) /\ pos' = 0 /\ bad' = {}
          [] ev.ev = "HookEv" ->
               /\ pos' = pos + 1
               /\ bad' = IF pos + 1 > Len(exp.log) THEN bad \cup {"invocation not predicted by the semantics"}
                         ELSE LET x == exp.log[pos + 1] IN
                              IF x.ev = ev.kind /\ x.id = ev.id /\ x.ctx = ev.ctx
                                 /\ (ev.kind = "after" => (x.ok = ev.ok /\ x.v = ev.v))
                                THEN bad ELSE bad \cup {"invocation differs from the semantics (order, context or result seen)"}
               /\ UNCHANGED exp
          [] ev.ev = "HookResult" ->
               /\ bad' = (IF pos # Len(exp.log) THEN bad \cup {"an invocation predicted by the semantics did not happen"} ELSE bad)
                         \cup (IF exp.res.ok = ev.ok /\ exp.res.v = ev.v THEN {} ELSE {"final result differs from the semantics"})
               /\ UNCHANGED <<exp, pos>>
          [] ev.ev = "Panic" -> bad' = bad \cup {"panic"} /\ UNCHANGED <<exp, pos>>
          [] OTHER -> UNCHANGED <<exp, pos, bad>>

TSpec == TInit /\ [][Step]_tvars

Report(name, ok) == ok \/ PrintT(<<"REPORT", name, scn, l - 1, {}>>)
Verdict_C19 == Report("Inv_C19", bad = {})
Accepted == l = Len(Rec) + 1 => PrintT(<<"ACCEPTED", Len(Rec)>>)
=============================================================================
