-------------------------- MODULE Trace_ServerMech --------------------------
(***************************************************************************)
(* Code -> mechanism conformance for the server side: a trace recorded by  *)
(* the harness family `server` is replayed through the operators of        *)
(* Server.tla (F_PeerReq, F_PeerCancel, F_Tick, ..., F_StreamPoll for a    *)
(* poll of the request stream, H_Poll for a poll of a handler task,        *)
(* AppDrop / DropStream for application drops) and after each step the     *)
(* part of the specification's state that the code exposes is compared     *)
(* with what the code reported (poll result, in-flight and timer counts of *)
(* hook H3, the id / deadline / incarnation of a yielded request, handler  *)
(* task finished or not, state at settle points).  See Trace_ClientMech.   *)
(***************************************************************************)
EXTENDS Server, Json, IOUtils

TraceRec == ndJsonDeserialize(IOEnv.TRACE)
MechIds == 0..40
NoLimit == -1
VARIABLES l, scn, live, total, good
mvars == <<S, l, scn, live, total, good>>

HNum(w) == CHOOSE hh \in 1..MaxInc : ("h" \o ToString(hh)) = w
Say(ok, what, x) == ok \/ (PrintT(<<"MECH", scn, l, what, x>>) /\ FALSE)
AliveW(s) == {t \in s.woken : IF t = T THEN s.sstate = "live" ELSE s.h[t].st \in {"offered", "running", "sending"}}
Fuel == 3000

MInit == S = InitS /\ l = 1 /\ scn = 0 /\ live = FALSE /\ total = 0 /\ good = 0

MStep ==
  /\ l <= Len(TraceRec)
  /\ l' = l + 1
  /\ LET e == TraceRec[l] IN
     /\ scn' = e.scn
     /\ IF e.ev = "Reset" THEN
          /\ S' = [InitS EXCEPT !.open = e.open, !.credits = e.credits]
          /\ live' = ~e.burst          \* burst scenarios exceed this replay's bound on handler incarnations: not judged here
          /\ total' = total + 1 /\ good' = good
        ELSE IF e.ev = "EndScenario" THEN
          /\ good' = IF live THEN good + 1 ELSE good
          /\ live' = FALSE /\ UNCHANGED <<S, total>>
        ELSE IF ~live THEN UNCHANGED <<S, live, total, good>>
        ELSE IF e.ev \in {"Panic", "Spin"} THEN
          /\ live' = FALSE /\ UNCHANGED <<S, total>> /\ good' = good + 1
        ELSE
          /\ UNCHANGED <<total, good>>
          /\ CASE e.ev = "PeerPush" ->
                    \* a deadline beyond the trace's integers (2^64 ms away, logged as 2 000 000 000) cannot be replayed: the
                    \* scenario is not judged from here on
                    /\ live' = ~(e.item.kind = "req" /\ e.item.dl >= 2000000000)
                    /\ S' = IF e.item.kind = "req" THEN F_PeerReq(S, e.item.id, e.item.dl) ELSE F_PeerCancel(S, e.item.id)
               [] e.ev = "PeerEof" -> S' = F_PeerEof(S) /\ live' = live
               [] e.ev = "Tick" -> S' = F_Tick(S, e.d) /\ live' = live
               [] e.ev = "Env" ->
                    /\ live' = live
                    /\ S' = CASE e.what = "SinkOpen" -> F_SinkOpen(S)
                              [] e.what = "SinkBlock" -> F_SinkBlock(S)
                              [] e.what = "SinkCredit" -> F_SinkCredit(S)
                              [] e.what = "Arm" -> F_Arm(S, e.op, e.k)
                              [] OTHER -> S
               [] e.ev = "Complete" -> S' = F_Complete(S, e.h) /\ live' = Say(e.h <= S.nextInc, "unknown handler completed", e.h)
               [] e.ev = "PollEnd" /\ e.who = "s" ->
                    LET s1 == SRun(S_Begin(S), Fuel)
                        res == IF s1.ret \in {"read", "ready", "write", "flush"} THEN "err" ELSE s1.ret
                        s2 == F_StreamPoll(S, Fuel)
                    IN /\ S' = s2
                       /\ live' = /\ Say(S.sstate = "live", "stream polled after it ended", 0)
                                  /\ Say(res = e.res, "stream poll result", <<res, e.res>>)
                                  /\ Say(Cardinality(s1.sinfl) = e.infl, "in-flight count", <<Cardinality(s1.sinfl), e.infl>>)
                                  /\ Say(Cardinality(s1.sdq) = e.timers, "timer count", <<Cardinality(s1.sdq), e.timers>>)
               [] e.ev = "Yielded" ->
                    \* logged just before the PollEnd of the poll that yields it: the incarnation about to be handed out
                    LET s1 == SRun(S_Begin(S), Fuel) IN
                    /\ UNCHANGED S
                    /\ live' = /\ Say(s1.ret = "item", "request yielded by the code, not by the specification", s1.ret)
                               /\ Say(s1.ret # "item" \/ (s1.nextInc = e.h /\ s1.h[s1.nextInc].id = e.id /\ s1.h[s1.nextInc].dl = e.dl),
                                      "yielded request", <<e.h, e.id, e.dl>>)
               [] e.ev = "PollEnd" /\ e.who # "s" ->
                    LET hh == HNum(e.who)
                        s1 == H_Poll(S, hh)
                    IN /\ S' = s1
                       /\ live' = Say((s1.h[hh].st = "exited") <=> (e.res = "ready"), "handler poll result",
                                      <<hh, s1.h[hh].st, e.res>>)
               [] e.ev = "AppDropHandler" -> S' = AppDrop(S, e.h) /\ live' = live
               [] e.ev = "AppDropStream" -> S' = DropStream(S, "dropped") /\ live' = live
               [] e.ev \in {"Settled", "Quiescent"} ->
                    /\ UNCHANGED S
                    /\ live' = /\ Say(Len(S.inq) = e.inq, "unread messages at a settle point", <<Len(S.inq), e.inq>>)
                               /\ Say((S.sstate = "live") = e.alive, "stream alive", <<S.sstate, e.alive>>)
                               /\ Say(S.sstate # "live" \/ (Cardinality(S.sinfl) = e.infl /\ Cardinality(S.sdq) = e.timers),
                                      "counts at a settle point", <<Cardinality(S.sinfl), e.infl, Cardinality(S.sdq), e.timers>>)
                               /\ Say(AliveW(S) = {}, "a task the code left asleep is woken in the specification", AliveW(S))
               [] OTHER -> UNCHANGED <<S, live>>

MSpec == MInit /\ [][MStep]_mvars
MDone == l = Len(TraceRec) + 1 => PrintT(<<"MECHDONE", total, good>>)
=============================================================================
