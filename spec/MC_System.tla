----------------------------- MODULE MC_System -----------------------------
EXTENDS System, Json
NoL == -1   \* "no request limit" (TLC configuration files cannot write a negative number)
ExportJson == (ExportSched /\ Done) => PrintT("SCHED " \o ToJson([steps |-> sched]))
=============================================================================
