----------------------------- MODULE ObsClient -----------------------------
(***************************************************************************)
(* Observer for the client side (Channel::call + RequestDispatch).         *)
(*                                                                         *)
(* The observer state is ONE record `o` built only from what a user or a   *)
(* wire-tap can see: calls started / polled / resolved / abandoned, items  *)
(* crossing the transport in order, the transport operations the dispatch  *)
(* performed and their results, peer pushes, injected faults, virtual time,*)
(* and (hook H3) the in-flight/timer counts at the end of dispatch polls.  *)
(* Every O* operator maps an observer state and one observable event to    *)
(* the next observer state.  They are used by the mechanism model          *)
(* Client.tla at the points where the model makes the same thing visible,  *)
(* and by Trace_Client.tla to replay traces of the real code, so the       *)
(* property invariants Inv_Cxx below are checked on both.                  *)
(*                                                                         *)
(* Interpretation choices are in DESIGN.md (Appendix C).                   *)
(***************************************************************************)
EXTENDS Naturals, Integers, Sequences, FiniteSets, TLC

NoPoint == [kind |-> "none", inq |-> 0, writable |-> TRUE, alive |-> TRUE, infl |-> 0, timers |-> 0]

OInit(maxInFlight, buf) ==
  [ maxInFlight |-> maxInFlight, buf |-> buf,
    now      |-> 0,
    n        |-> 0,                 \* counter of wire-out / hand-over events (orders them against each other)
    call     |-> <<>>,              \* c -> record, see OCallStart
    wire     |-> <<>>,              \* items accepted by start_send, in order
    pushed   |-> {},                \* responses the peer put on the wire: [id, ok, body]
    handed   |-> <<>>,              \* responses handed to the dispatch by poll_next: [id, ok, body, t, n]
    faults   |-> <<>>,              \* injected faults that fired: [op, kind, c]
    eof      |-> "none",            \* "none" | "pushed" | "seen"
    disp     |-> "live",            \* "live" | "ok" | "read" | "ready" | "write" | "flush" | "close" | "panic"
    dropped  |-> FALSE,             \* dispatch future dropped
    handles  |-> 1,
    closed   |-> FALSE,             \* poll_close completed
    closes   |-> 0,
    \* sink protocol (C14)
    credit   |-> FALSE,             \* a poll_ready -> Ready(Ok) not yet used by a start_send
    sinkfail |-> FALSE,             \* poll_ready / poll_flush / poll_close reported an error
    unflushed|-> 0,
    lastflush|-> "none",            \* result of the last poll_flush in the current dispatch poll
    c14      |-> {},                \* recorded protocol violations
    spin     |-> FALSE,
    panic    |-> FALSE,
    inpoll   |-> FALSE,
    c11      |-> {},                \* recorded count violations at dispatch poll ends
    pt       |-> NoPoint ]          \* snapshot at a Settled / Quiescent point (only in that state)

(* every event first clears the point snapshot and sets the clock *)
OTick(o, t) == [o EXCEPT !.pt = NoPoint, !.now = t]

OCallStart(o, c, dl, tr, span, sampled) ==
  [o EXCEPT !.call = c :> [st |-> "started", dl |-> dl, tr |-> tr, span |-> span, sampled |-> sampled,
                           polled |-> FALSE, id |-> -1, reqn |-> 0, kind |-> "", body |-> "",
                           at |-> 0, afterDone |-> (o.disp # "live" \/ o.dropped)] @@ @]

OCallPolled(o, c) == IF c \in DOMAIN o.call THEN [o EXCEPT !.call[c].polled = TRUE] ELSE o

OResolved(o, c, kind, body) ==
  [o EXCEPT !.call[c].st = "resolved", !.call[c].kind = kind, !.call[c].body = body,
            !.call[c].at = o.now]

(* the caller starts dropping the call future (the guard's drop may be interleaved with other tasks) *)
ODropEnter(o, c) ==
  IF o.call[c].st = "started" THEN [o EXCEPT !.call[c].st = "dropping"] ELSE o
OAbandon(o, c) ==
  IF o.call[c].st \in {"started", "dropping"} THEN [o EXCEPT !.call[c].st = "abandoned", !.call[c].at = o.now] ELSE o

OWireOut(o, item) ==
  LET w == [kind |-> item.kind, id |-> item.id, c |-> item.c, tr |-> item.tr, span |-> item.span,
            sampled |-> item.sampled, n |-> o.n]
      o1 == [o EXCEPT !.wire = Append(@, w), !.n = @ + 1]
  IN IF item.kind = "req" /\ item.c \in DOMAIN o.call
       THEN [o1 EXCEPT !.call[item.c].id = item.id, !.call[item.c].reqn = o.n]
       ELSE o1

OPush(o, item) == [o EXCEPT !.pushed = @ \cup {[id |-> item.id, ok |-> item.ok, body |-> item.body]}]

OHanded(o, item) ==
  [o EXCEPT !.handed = Append(@, [id |-> item.id, ok |-> item.ok, body |-> item.body, t |-> o.now, n |-> o.n]),
            !.n = @ + 1]

OEofPushed(o) == [o EXCEPT !.eof = IF @ = "none" THEN "pushed" ELSE @]
OEofSeen(o)   == [o EXCEPT !.eof = "seen"]

OFault(o, op, kind, c) == [o EXCEPT !.faults = Append(@, [op |-> op, kind |-> kind, c |-> c])]

ODispDone(o, res) == [o EXCEPT !.disp = res]
ODispDropped(o)   == [o EXCEPT !.dropped = TRUE]
OPanic(o, who)    == [o EXCEPT !.panic = TRUE, !.disp = IF who = "d" THEN "panic" ELSE @]
OSpin(o)          == [o EXCEPT !.spin = TRUE]
OHandles(o, k)    == [o EXCEPT !.handles = k]

(* one transport operation performed by the dispatch, with its result *)
OSinkOp(o, op, res, unflushed) ==
  LET bad(x) == [o EXCEPT !.c14 = @ \cup {x}] IN
  CASE op = "ready" ->
         IF res = "ok" THEN [o EXCEPT !.credit = TRUE]
         ELSE IF res = "err" THEN [o EXCEPT !.sinkfail = TRUE] ELSE o
    [] op = "send" ->
         LET o1 == IF ~o.credit THEN bad("send without readiness")
                   ELSE IF o.closed THEN bad("send after close")
                   ELSE IF o.sinkfail THEN bad("send after failure") ELSE o
         IN [o1 EXCEPT !.credit = FALSE,
                       !.unflushed = IF res = "ok" THEN @ + 1 ELSE @]
    [] op = "flush" ->
         IF res = "ok" THEN [o EXCEPT !.unflushed = 0, !.lastflush = "ok"]
         ELSE IF res = "err" THEN [o EXCEPT !.sinkfail = TRUE, !.lastflush = "err"]
         ELSE [o EXCEPT !.lastflush = "pending"]
    [] op = "close" ->
         IF res = "ok" THEN [o EXCEPT !.closed = TRUE, !.closes = @ + 1, !.unflushed = 0]
         ELSE IF res = "err" THEN [o EXCEPT !.sinkfail = TRUE]
         ELSE [o EXCEPT !.lastflush = "pending"]        \* a pending close is a pending flush
    [] OTHER -> o

OPollStart(o, who) ==
  IF who = "d" THEN [o EXCEPT !.lastflush = "none", !.inpoll = TRUE]
  ELSE o

(* ground truth from the wire: requests transmitted and not ended as far as the wire can tell *)
SentOk(o) == {i \in DOMAIN o.wire : o.wire[i].kind = "req"}
EndedOnWire(o, i) ==
  \/ \E j \in DOMAIN o.wire : j > i /\ o.wire[j].kind = "cancel" /\ o.wire[j].id = o.wire[i].id
  \/ \E h \in DOMAIN o.handed : o.handed[h].id = o.wire[i].id /\ o.handed[h].n > o.wire[i].n
Outstanding(o) == {i \in SentOk(o) : ~EndedOnWire(o, i)}
DeadlineOf(o, i) == IF o.wire[i].c \in DOMAIN o.call THEN o.call[o.wire[i].c].dl ELSE 0
MaybeExpired(o) == {i \in Outstanding(o) : o.now >= DeadlineOf(o, i)}

OPollEnd(o, who, res, infl, timers) ==
  IF who # "d" THEN o ELSE
  LET quiet == (\A i \in DOMAIN o.faults : o.faults[i].op = "send" /\ o.faults[i].kind = "req")  \* no fatal fault so far
      up == Cardinality(Outstanding(o))
      lo == up - Cardinality(MaybeExpired(o))
      b1 == IF infl > o.maxInFlight THEN {"in-flight count exceeds the configured maximum"} ELSE {}
      b2 == IF quiet /\ res = "pending" /\ infl > up THEN {"in-flight count above requests outstanding on the wire"} ELSE {}
      b3 == IF quiet /\ res = "pending" /\ infl < lo THEN {"in-flight count below requests outstanding on the wire"} ELSE {}
      b4 == IF res = "pending" /\ timers # infl THEN {"timer count differs from in-flight count"} ELSE {}
      c14b == IF quiet /\ res = "pending" /\ o.unflushed > 0 /\ o.lastflush # "pending"
                THEN {"idle with unflushed items and no flush pending"} ELSE {}
  IN [o EXCEPT !.c11 = @ \cup b1 \cup b2 \cup b3 \cup b4, !.c14 = @ \cup c14b, !.inpoll = FALSE]

OPoint(o, kind, inq, writable, alive, infl, timers) ==
  [o EXCEPT !.pt = [kind |-> kind, inq |-> inq, writable |-> writable, alive |-> alive,
                    infl |-> infl, timers |-> timers]]

(* ------------------------------------------------------------------ helpers *)
Calls(o) == DOMAIN o.call
Wire(o) == o.wire
CancelsOf(o, id) == {i \in DOMAIN o.wire : o.wire[i].kind = "cancel" /\ o.wire[i].id = id}
ReqsOf(o, id) == {i \in DOMAIN o.wire : o.wire[i].kind = "req" /\ o.wire[i].id = id}
FatalFaults(o) == {i \in DOMAIN o.faults :
                     o.faults[i].op \in {"next", "ready", "flush", "close"}
                     \/ (o.faults[i].op = "send" /\ o.faults[i].kind = "cancel")}
SendFailed(o, c) == \E i \in DOMAIN o.faults : o.faults[i].op = "send" /\ o.faults[i].kind = "req" /\ o.faults[i].c = c
ConnectionTrouble(o) == o.faults # <<>> \/ o.eof # "none" \/ o.disp # "live" \/ o.dropped
AtPoint(o) == o.pt.kind # "none"
AtQuiescent(o) == o.pt.kind = "quiescent"
HandedFor(o, c) == {h \in DOMAIN o.handed : o.call[c].id >= 0 /\ o.handed[h].id = o.call[c].id
                                              /\ o.handed[h].n > o.call[c].reqn}

(* ------------------------------------------------------------------ C01 *)
(* success only with a body the peer really sent for this call's own id, handed over after the request *)
Inv_C01a(o) ==
  \A c \in Calls(o) :
    (o.call[c].st = "resolved" /\ o.call[c].kind \in {"ok", "server"}) =>
       /\ o.call[c].id >= 0
       /\ \E h \in HandedFor(o, c) : /\ o.handed[h].body = o.call[c].body
                                     /\ o.handed[h].ok = (o.call[c].kind = "ok")
       /\ [id |-> o.call[c].id, ok |-> (o.call[c].kind = "ok"), body |-> o.call[c].body] \in o.pushed
(* no response is delivered to two calls (every pushed body is unique) *)
Inv_C01b(o) ==
  \A c1, c2 \in Calls(o) :
    (c1 # c2 /\ o.call[c1].st = "resolved" /\ o.call[c2].st = "resolved"
       /\ o.call[c1].kind \in {"ok", "server"} /\ o.call[c2].kind \in {"ok", "server"})
      => o.call[c1].body # o.call[c2].body
(* other calls are not disturbed: an error outcome needs a legitimate cause *)
Inv_C01c(o) ==
  \A c \in Calls(o) :
    o.call[c].st = "resolved" =>
      /\ (o.call[c].kind \in {"channel", "shutdown"}) => ConnectionTrouble(o)
      /\ (o.call[c].kind = "send") => SendFailed(o, c)
      /\ (o.call[c].kind = "deadline") => o.call[c].at >= o.call[c].dl
(* request ids are unique across calls and cloned handles *)
Inv_C01d(o) ==
  \A i, j \in DOMAIN o.wire :
    (i # j /\ o.wire[i].kind = "req" /\ o.wire[j].kind = "req") => o.wire[i].id # o.wire[j].id
(* a response that matches no live call (unknown id, duplicate, or its call already ended) is discarded   *)
(* without disturbing the others: at a settle point everything the peer pushed has still been read and   *)
(* every reply handed over has resolved its call                                                          *)
Unmatched(o) == {p \in o.pushed : \A c \in Calls(o) : o.call[c].id # p.id
                                     \/ o.call[c].st = "abandoned"
                                     \/ (o.call[c].st = "resolved" /\ o.call[c].body # p.body)}
Inv_C01e(o) ==
  (AtPoint(o) /\ o.pt.alive /\ ~o.panic /\ Unmatched(o) # {}) =>
     /\ o.pt.inq = 0
     /\ \A c \in Calls(o) : (o.call[c].st = "started" /\ o.call[c].polled) => HandedFor(o, c) = {}
Inv_C01(o) == Inv_C01a(o) /\ Inv_C01b(o) /\ Inv_C01c(o) /\ Inv_C01d(o) /\ Inv_C01e(o)

(* ------------------------------------------------------------------ C02 *)
(* at quiescence (everything owed by the transport granted, clock run out, only woken tasks *)
(* polled) no call is still pending, and no poll failed to return                           *)
Inv_C02a(o) ==
  /\ ~o.spin
  /\ AtQuiescent(o) => \A c \in Calls(o) : o.call[c].st # "started"
(* each enabling event wakes its task: at every settle point (no clock advance needed)      *)
Inv_C02b(o) ==
  (AtPoint(o) /\ o.pt.alive /\ ~o.panic) =>
     /\ o.pt.inq = 0                                   \* every reply pushed was handed over
     /\ o.eof # "pushed"                               \* peer close was noticed
     /\ \A c \in Calls(o) :                            \* a reply handed over resolved its call
          (o.call[c].st = "started" /\ o.call[c].polled) => HandedFor(o, c) = {}
Inv_C02c(o) ==
  (AtPoint(o) /\ ~o.panic) =>
     /\ (o.eof = "seen" => ~o.pt.alive)                \* dispatch stops promptly after peer close
     /\ (~o.pt.alive) => \A c \in Calls(o) : ~(o.call[c].st = "started" /\ o.call[c].polled)
(* capacity coming back wakes the dispatch: at a settle point with a writable sink no started call is still    *)
(* waiting to be transmitted while fewer than the maximum are in flight                                         *)
Inv_C02d(o) ==
  (AtPoint(o) /\ o.pt.alive /\ o.pt.writable /\ ~o.panic /\ FatalFaults(o) = {} /\ o.eof = "none" /\ o.disp = "live") =>
     (o.pt.infl < o.maxInFlight =>
        \A c \in Calls(o) : ~(o.call[c].st = "started" /\ o.call[c].polled /\ o.call[c].id < 0 /\ ~o.call[c].afterDone
                                /\ ~SendFailed(o, c)))
(* a deadline timer firing is an enabling event like any other: whatever the sink is doing, at a settle point no      *)
(* transmitted call is still pending a millisecond past its deadline (the same condition as Inv_C05b, read as a wake-up) *)
Inv_C02e(o) ==
  (AtPoint(o) /\ o.pt.alive /\ ~o.panic) =>
     \A c \in Calls(o) : ~(o.call[c].st = "started" /\ o.call[c].polled /\ o.call[c].id >= 0 /\ o.now >= o.call[c].dl + 1)
Inv_C02(o) == Inv_C02a(o) /\ Inv_C02b(o) /\ Inv_C02c(o) /\ Inv_C02d(o) /\ Inv_C02e(o)

(* ------------------------------------------------------------------ C03 *)
Inv_C03a(o) == \A i \in DOMAIN o.wire : o.wire[i].kind = "cancel" => Cardinality(CancelsOf(o, o.wire[i].id)) <= 1
Inv_C03b(o) == \A i \in DOMAIN o.wire : o.wire[i].kind = "cancel" => \E j \in ReqsOf(o, o.wire[i].id) : j < i
Inv_C03c(o) == \A c \in Calls(o) : (o.call[c].st = "resolved" /\ o.call[c].id >= 0) => CancelsOf(o, o.call[c].id) = {}
(* an abandoned call whose request is on the wire owes a cancellation, unless excused *)
Excused(o, c) ==
  \/ HandedFor(o, c) # {}                    \* reply processed
  \/ o.now >= o.call[c].dl                   \* deadline expired (or expiring at this instant)
  \/ SendFailed(o, c)                        \* write failed
  \/ o.eof # "none"                         \* connection lost (a fatal transport fault ends the dispatch: next line)
  \/ o.disp \notin {"live", "ok"} \/ (o.dropped /\ o.disp = "live")
OwesCancel(o, c) ==
  /\ o.call[c].st = "abandoned" /\ o.call[c].id >= 0
  /\ CancelsOf(o, o.call[c].id) = {}
  /\ ~Excused(o, c)
Inv_C03d(o) ==
  (AtPoint(o) /\ ~o.panic /\ (o.pt.writable \/ ~o.pt.alive)) => \A c \in Calls(o) : ~OwesCancel(o, c)
Inv_C03(o) == Inv_C03a(o) /\ Inv_C03b(o) /\ Inv_C03c(o) /\ Inv_C03d(o)

(* ------------------------------------------------------------------ C05 *)
Inv_C05a(o) ==
  \A c \in Calls(o) : (o.call[c].st = "resolved" /\ o.call[c].kind = "deadline") =>
                         (o.call[c].at >= o.call[c].dl /\ o.call[c].id >= 0)
Inv_C05b(o) ==
  (AtPoint(o) /\ o.pt.alive /\ ~o.panic) =>
     \A c \in Calls(o) : ~(o.call[c].st = "started" /\ o.call[c].polled /\ o.call[c].id >= 0
                            /\ o.now >= o.call[c].dl + 1)
(* a reply processed before the deadline is delivered instead of a deadline error *)
Inv_C05c(o) ==
  \A c \in Calls(o) : (o.call[c].st = "resolved" /\ o.call[c].kind = "deadline") =>
      \A h \in HandedFor(o, c) : o.handed[h].t >= o.call[c].dl
Inv_C05(o) == Inv_C05a(o) /\ Inv_C05b(o) /\ Inv_C05c(o)

(* ------------------------------------------------------------------ C09 (client half) *)
KindOfFault(f) == CASE f.op = "next" -> "read" [] f.op = "ready" -> "ready" [] f.op = "flush" -> "flush"
                    [] f.op = "close" -> "close" [] OTHER -> "write"
FirstFatal(o) == LET S == FatalFaults(o) IN CHOOSE i \in S : \A j \in S : i <= j
Inv_C09a(o) ==
  /\ (o.disp \in {"read", "ready", "write", "flush", "close"}) =>
        (FatalFaults(o) # {} /\ o.disp = KindOfFault(o.faults[FirstFatal(o)]))
  /\ (AtPoint(o) /\ FatalFaults(o) # {} /\ ~o.panic) =>
        o.disp = KindOfFault(o.faults[FirstFatal(o)])
  /\ \A c \in Calls(o) : (o.call[c].st = "resolved" /\ o.call[c].afterDone) =>
        o.call[c].kind \in {"shutdown", "channel"}
(* a failed request write fails exactly that call and the dispatch stays up *)
Inv_C09b(o) ==
  /\ \A c \in Calls(o) : (o.call[c].st = "resolved" /\ SendFailed(o, c)) => o.call[c].kind \in {"send"}
  /\ (o.disp = "write") => \E i \in FatalFaults(o) : o.faults[i].op = "send"
Inv_C09d(o) == ~o.panic
Inv_C09(o) == Inv_C09a(o) /\ Inv_C09b(o) /\ Inv_C09d(o)

(* ------------------------------------------------------------------ C10 (client half) *)
NothingAfterClose(o) == ~("send after close" \in o.c14)
Inv_C10a(o) ==
  /\ o.closes <= 1 /\ NothingAfterClose(o)
  /\ (AtQuiescent(o) /\ o.handles = 0 /\ o.faults = <<>> /\ o.eof = "none" /\ ~o.panic) =>
        /\ o.disp = "ok" /\ o.closes = 1
        /\ \A c \in Calls(o) : ~OwesCancel(o, c)
  /\ (o.disp = "ok" /\ o.eof # "seen") => (o.closed /\ o.handles = 0)
Inv_C10b(o) ==
  (AtPoint(o) /\ o.eof = "seen" /\ ~o.panic) => ~o.pt.alive
Inv_C10(o) == Inv_C10a(o) /\ Inv_C10b(o)

(* ------------------------------------------------------------------ C11 (client half) *)
Inv_C11a(o) == o.c11 = {}
Inv_C11c(o) ==
  (AtPoint(o) /\ o.pt.alive /\ o.pt.writable /\ ~o.panic
     /\ \A c \in Calls(o) : o.call[c].st # "started") =>
       (o.pt.infl = 0 /\ o.pt.timers = 0)
Inv_C11(o) == Inv_C11a(o) /\ Inv_C11c(o)

(* ------------------------------------------------------------------ C14 (client half) *)
Inv_C14(o) == o.c14 = {} /\ ~o.spin

(* ------------------------------------------------------------------ C18 (client half) *)
Inv_C18a(o) ==
  \A i \in DOMAIN o.wire : (o.wire[i].kind = "req" /\ o.wire[i].c \in Calls(o)) =>
     /\ o.wire[i].tr = o.call[o.wire[i].c].tr
     /\ o.wire[i].sampled = o.call[o.wire[i].c].sampled
     /\ o.wire[i].span # o.call[o.wire[i].c].span
Inv_C18b(o) ==
  \A i \in DOMAIN o.wire : o.wire[i].kind = "cancel" =>
     \A j \in ReqsOf(o, o.wire[i].id) :
        /\ o.wire[j].tr = o.wire[i].tr /\ o.wire[j].span = o.wire[i].span /\ o.wire[j].sampled = o.wire[i].sampled
Inv_C18(o) == Inv_C18a(o) /\ Inv_C18b(o)

=============================================================================
