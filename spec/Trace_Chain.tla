----------------------------- MODULE Trace_Chain -----------------------------
(***************************************************************************)
(* Observer / trace driver for service chains of depth 1..3 (harness       *)
(* family `chain`): the end-to-end statements of C04 (cascade), C07        *)
(* (deadlines across hops) and C18 (trace context across hops), as         *)
(* composed in Chain.tla, judged on executions of real client -> server -> *)
(* handler -> client ... chains.                                           *)
(***************************************************************************)
EXTENDS Naturals, Integers, Sequences, FiniteSets, TLC, Json, IOUtils

Rec == ndJsonDeserialize(IOEnv.TRACE)
VARIABLES l, scn, start, req, hstart, abandoned, bad04, bad07, bad18, sub
tvars == <<l, scn, start, req, hstart, abandoned, bad04, bad07, bad18, sub>>
NoStart == [dl |-> 0, tr |-> "", span |-> "", sampled |-> FALSE, delays |-> <<>>]
TInit == l = 1 /\ scn = 0 /\ start = NoStart /\ req = <<>> /\ hstart = <<>> /\ abandoned = FALSE
         /\ bad04 = {} /\ bad07 = {} /\ bad18 = {} /\ sub = "none"
(* sub: the tracing subscriber of the process.  Under an OpenTelemetry layer ("otel") trace contexts travel in spans: a call *)
(* takes its trace id and sampling decision from the span it is made in (the head call is made in a span whose remote parent  *)
(* is the caller's context, a nested call in its handler's span) and gets a fresh span of its own, and `context::current()`   *)
(* inside a handler must report the handler's deadline and trace context.                                                     *)

(* the server side runs under an OpenTelemetry layer *)
Traced == sub \in {"otel", "otel-server"}
RECURSIVE SumTo(_, _)
SumTo(s, k) == IF k = 0 THEN 0 ELSE s[k] + SumTo(s, k - 1)

Step ==
  /\ l <= Len(Rec)
  /\ l' = l + 1
  /\ LET e == Rec[l] IN
     /\ scn' = e.scn
     /\ sub' = IF e.ev = "Reset" /\ "sub" \in DOMAIN e THEN e.sub ELSE sub
     /\ CASE e.ev = "Reset" -> start' = NoStart /\ req' = <<>> /\ hstart' = <<>> /\ abandoned' = FALSE
                               /\ bad04' = {} /\ bad07' = {} /\ bad18' = {}
          [] e.ev = "ChainStart" ->
               /\ start' = [dl |-> e.dl, tr |-> e.tr, span |-> e.span, sampled |-> e.sampled, delays |-> e.delays]
               /\ UNCHANGED <<req, hstart, abandoned, bad04, bad07, bad18>>
          [] e.ev = "LinkSent" /\ e.item.kind = "req" ->
               /\ req' = (e.k :> e.item) @@ req
               /\ bad18' = bad18
                    \cup (IF e.k = 1 /\ ~(e.item.tr = start.tr /\ e.item.sampled = start.sampled /\ e.item.span # start.span)
                            THEN {"head request does not carry the caller's trace id / sampling with a fresh span"} ELSE {})
                    \cup (IF e.k > 1 /\ (e.k - 1) \in DOMAIN hstart
                              /\ ~(e.item.tr = hstart[e.k - 1].tr /\ e.item.sampled = hstart[e.k - 1].sampled
                                    \* (an invalid trace, id 0, gets no span ids of its own from an OpenTelemetry tracer)
                                    /\ (e.item.span # hstart[e.k - 1].span \/ (Traced /\ hstart[e.k - 1].tr = "0")))
                            THEN {"nested request does not carry the handler's trace id / sampling with a fresh span"} ELSE {})
               \* (nrel: the deadline the handler gave its nested call - its own, or a later one)
               /\ bad07' = IF e.k > 1 /\ (e.k - 1) \in DOMAIN hstart /\ e.item.rel # hstart[e.k - 1].nrel
                             THEN bad07 \cup {"nested call does not carry the deadline its caller passed"} ELSE bad07
               /\ UNCHANGED <<start, hstart, abandoned, bad04>>
          [] e.ev = "LinkSent" /\ e.item.kind = "cancel" ->
               /\ bad18' = IF e.k \in DOMAIN req /\ req[e.k].id = e.item.id
                              /\ ~(e.item.tr = req[e.k].tr /\ e.item.span = req[e.k].span /\ e.item.sampled = req[e.k].sampled)
                             THEN bad18 \cup {"cancellation does not carry its request's trace context"} ELSE bad18
               /\ UNCHANGED <<start, req, hstart, abandoned, bad04, bad07>>
          [] e.ev = "ChainHandlerStart" ->
               /\ hstart' = (e.k :> [dl |-> e.dl, rel |-> e.rel, nrel |-> e.nrel, tr |-> e.tr, span |-> e.span, sampled |-> e.sampled]) @@ hstart
               /\ bad18' = bad18
                    \* a request without a trace (trace id 0: an untraced caller) starts a new trace at a traced server
                    \cup (IF e.k \in DOMAIN req /\ ~(Traced /\ req[e.k].tr = "0")
                              /\ ~(e.tr = req[e.k].tr /\ e.sampled = req[e.k].sampled /\ e.span # req[e.k].span)
                            THEN {"handler does not observe the request's trace id / sampling with a fresh span"} ELSE {})
                    \cup (IF \E j \in DOMAIN hstart : j # e.k /\ hstart[j].span = e.span
                            THEN {"two hops share a span id"} ELSE {})
                    \cup (IF Traced /\ "cur" \in DOMAIN e /\ ~(e.cur.tr = e.tr /\ e.cur.sampled = e.sampled)
                            THEN {"context::current() inside the handler does not report the handler's trace context"} ELSE {})
               \* deadlines are compared relative to the head call's deadline (rel = deadline - head deadline, in ms):
               \* deadlines years away do not fit the specification's integers
               /\ bad07' = bad07
                    \* relative to the deadline the previous hop passed (the head's for hop 1): not earlier, later by at most this hop's transit
                    \cup (LET b == IF e.k > 1 /\ (e.k - 1) \in DOMAIN hstart THEN hstart[e.k - 1].nrel ELSE 0
                               hi == IF e.k > 1 /\ (e.k - 1) \in DOMAIN hstart THEN b + start.delays[e.k] ELSE SumTo(start.delays, e.k) IN
                          IF e.rel >= b /\ e.rel <= hi THEN {}
                          ELSE {"handler's deadline is earlier than the caller's or later than it plus accumulated transit"})
                    \cup (IF Traced /\ "cur" \in DOMAIN e /\ e.cur.rel # e.rel
                            THEN {"context::current() inside the handler does not report the handler's deadline"} ELSE {})
               /\ UNCHANGED <<start, req, abandoned, bad04>>
          [] e.ev = "ChainAbandon" -> abandoned' = TRUE /\ UNCHANGED <<start, req, hstart, bad04, bad07, bad18>>
          [] e.ev = "ChainDrained" ->
               /\ bad04' = IF abandoned /\ e.before_deadline /\ e.handlers_alive # <<>>
                             THEN bad04 \cup {"head abandoned but a handler down the chain is still running after everything in transit arrived"} ELSE bad04
               /\ UNCHANGED <<start, req, hstart, abandoned, bad07, bad18>>
          [] e.ev = "ChainQuiescent" ->
               /\ bad04' = IF e.handlers_alive # <<>> \/ e.call_pending
                             THEN bad04 \cup {"a handler or the head call is still alive at quiescence"} ELSE bad04
               /\ UNCHANGED <<start, req, hstart, abandoned, bad07, bad18>>
          [] e.ev = "Panic" -> bad04' = bad04 \cup {"panic"} /\ UNCHANGED <<start, req, hstart, abandoned, bad07, bad18>>
          [] OTHER -> UNCHANGED <<start, req, hstart, abandoned, bad04, bad07, bad18>>

TSpec == TInit /\ [][Step]_tvars
Report(name, ok, why) == ok \/ PrintT(<<"REPORT", name, scn, l - 1, why>>)
Verdict_C04 == Report("Inv_C04chain", bad04 = {}, bad04)
(* C02 end to end: with every task polled only when woken, nothing is left pending once nothing can wake the chain *)
Stuck == bad04 \cap {"a handler or the head call is still alive at quiescence"}
Verdict_C02 == Report("Inv_C02chain", Stuck = {}, Stuck)
Verdict_C07 == Report("Inv_C07chain", bad07 = {}, bad07)
(* C05 seen from the wire: a call is transmitted with the deadline its caller chose, so it cannot be failed before it *)
Early == bad07 \cap {"nested call does not carry the deadline its caller passed"}
Verdict_C05 == Report("Inv_C05chain", Early = {}, Early)
Verdict_C18 == Report("Inv_C18chain", bad18 = {}, bad18)
Verdict_All == Verdict_C04 /\ Verdict_C07 /\ Verdict_C18
Accepted == l = Len(Rec) + 1 => PrintT(<<"ACCEPTED", Len(Rec)>>)
=============================================================================
