------------------------------- MODULE ObsSys -------------------------------
(***************************************************************************)
(* Observer for the whole stack as an application uses it (harness family  *)
(* `sys`, mechanism specification System.tla):                             *)
(*                                                                         *)
(*   listener -> BaseChannel -> max_channels_per_key(n) ->                  *)
(*   max_concurrent_requests_per_channel(L) -> execute(serve) ->           *)
(*   spawn_incoming        |  client::new(cfg, transport).spawn(), calls    *)
(*                                                                         *)
(* Only things an application or a wire tap can see are recorded: the      *)
(* connection offered to the listener, the key maker being asked, a server *)
(* transport being dropped, requests / responses / cancellations crossing  *)
(* the in-memory transports, the service function being entered and its    *)
(* future being dropped, calls started / abandoned / resolved, the clock,  *)
(* and the points at which the runtime has nothing left to run (Idle).     *)
(* The end-to-end readings of C01, C02, C04, C05, C06, C10, C12 and C13    *)
(* are judged on that record; every rule is sound for any scheduling of    *)
(* the runtime's tasks (DESIGN.md section 18).                             *)
(***************************************************************************)
EXTENDS Naturals, Integers, Sequences, FiniteSets, TLC

NoConn == [st |-> "none", key |-> 0, cdrop |-> FALSE, cgone |-> FALSE, cclosed |-> FALSE, sfail |-> FALSE]
NoCall == [k |-> 0, st |-> "none", tr |-> "", smp |-> FALSE, dl |-> 0, sent |-> FALSE, id |-> -1, ans |-> FALSE, canc |-> 0, P |-> 0, h |-> "none", starts |-> 0, gate |-> FALSE, inc |-> 0]

YInit(n, limit, mif) ==
  [n |-> n, limit |-> limit, mif |-> mif, now |-> 0, conn |-> <<>>, call |-> <<>>, down |-> FALSE,
   bad01 |-> {}, bad02 |-> {}, bad03 |-> {}, bad04 |-> {}, bad18 |-> {}, bad05 |-> {}, bad06 |-> {}, bad10 |-> {}, bad12 |-> {}, bad13 |-> {}, bad09 |-> {}, bad14 |-> {}]

Conn(y, k) == IF k \in DOMAIN y.conn THEN y.conn[k] ELSE NoConn
Call(y, c) == IF c \in DOMAIN y.call THEN y.call[c] ELSE NoCall
SetConn(y, k, r) == [y EXCEPT !.conn = (k :> r) @@ y.conn]
SetCall(y, c, r) == [y EXCEPT !.call = (c :> r) @@ y.call]
Bad(y, f, cond, why) == IF cond THEN [y EXCEPT ![f] = @ \cup {why}] ELSE y

AliveOfKey(y, key) == {j \in DOMAIN y.conn : y.conn[j].st = "alive" /\ y.conn[j].key = key}
CallsOf(y, k) == {c \in DOMAIN y.call : y.call[c].k = k}

(* A channel whose key has just been asked for is "deciding": the limiter either drops it at once (shed) or hands it *)
(* on (Admitted: observed right behind the limiter).                                                               *)
YAdmitted(y, k) ==
  LET c == Conn(y, k)
      y1 == Bad(y, "bad13", y.n > 0 /\ Cardinality(AliveOfKey(y, c.key)) >= y.n,
                "a channel was admitted while n channels of its key were alive")
  IN SetConn(y1, k, [c EXCEPT !.st = "alive"])

YConnect(y0, k, key) == LET y == y0 IN SetConn(y, k, [st |-> "offered", key |-> key, cdrop |-> FALSE, cgone |-> FALSE, cclosed |-> FALSE, sfail |-> FALSE])

YArrive(y0, k, key) ==
  LET y == y0 IN
  SetConn(y, k, [st |-> "deciding", key |-> key, cdrop |-> Conn(y, k).cdrop, cgone |-> Conn(y, k).cgone, cclosed |-> Conn(y, k).cclosed, sfail |-> Conn(y, k).sfail])

(* the server side of connection k was dropped *)
YServerDrop(y0, k) ==
  LET y == y0
      c == Conn(y, k) IN
  IF c.st = "deciding"
    THEN SetConn(Bad(y, "bad13", y.n = 0 \/ Cardinality(AliveOfKey(y, c.key)) < y.n,
                     "a channel was shed while fewer than n channels of its key were alive"),
                 k, [c EXCEPT !.st = "shed"])
    ELSE LET running == {x \in CallsOf(y, k) : y.call[x].st = "pending" /\ y.call[x].h = "running" /\ y.now < y.call[x].dl} IN
         SetConn(Bad(Bad(y, "bad10", ~y.down /\ running # {} /\ ~c.sfail,
                         "a server channel ended while the handler of a live call was still running"),
                     "bad10", ~y.down /\ c.st = "alive" /\ ~c.cgone /\ ~c.sfail,
                     "a server channel ended although its client had not closed the connection"),
                 k, [c EXCEPT !.st = "gone"])

(* the client side of connection k is gone: its dispatch ended (it closes the transport first) *)
YClientGone(y, k) == IF k \in DOMAIN y.conn THEN SetConn(y, k, [y.conn[k] EXCEPT !.cgone = TRUE]) ELSE y

(* the client's dispatch closes the write side of connection k: everything queued has been transmitted before, *)
(* in particular the cancellation of every abandoned call whose request went out and was not answered         *)
YClientClose(y, k) ==
  IF k \notin DOMAIN y.conn THEN y
  ELSE LET owed == {x \in CallsOf(y, k) : y.call[x].st = "abandoned" /\ y.call[x].sent /\ ~y.call[x].ans
                                           /\ y.call[x].canc = 0 /\ y.now < y.call[x].dl}
           y1 == Bad(y, "bad10", ~y.down /\ owed # {} /\ ~y.conn[k].cclosed,
                     "the client closed the write side while the cancellation of an abandoned call was still queued")
       IN SetConn(y1, k, [y1.conn[k] EXCEPT !.cclosed = TRUE])
WrittenAfterClose(y, k) == Bad(y, "bad10", Conn(y, k).cclosed, "the client wrote a message after closing the write side")

(* the server's transport of connection k reported a failure (injected): serving of that channel stops - the transport is *)
(* not used again (C14: never write after a failure; C09: serving stops) and the channel is dropped with its handlers   *)
YServerFault(y, k) == IF k \in DOMAIN y.conn THEN SetConn(y, k, [y.conn[k] EXCEPT !.sfail = TRUE]) ELSE y
YUseAfterFail(y, side, op) ==
  Bad(Bad(y, "bad14", TRUE, "a transport was used (" \o op \o ") after it had reported a failure"),
      "bad09", side = "s", "a server channel went on using its transport after the transport had failed")

YCall(y0, c, k, dl, tr, smp) ==
  LET y == y0 IN
  SetCall(y, c, [NoCall EXCEPT !.k = k, !.st = "pending", !.dl = dl, !.tr = tr, !.smp = smp])

(* requests of the same connection that can possibly still be in flight at the server when request c is read: transmitted *)
(* before it, not answered yet (a request stays in flight until its response is written), handler not aborted             *)
Potential(y, c, k) == {x \in CallsOf(y, k) \ {c} : y.call[x].sent /\ ~y.call[x].ans /\ y.call[x].h # "aborted"}

(* the client wrote the request of call c *)
YSend(y0, c, k, id) ==
  LET y == WrittenAfterClose(y0, k)
      r == Call(y, c)
      y1 == Bad(Bad(y, "bad01", r.st = "none" \/ r.k # k, "a request was transmitted on a connection its call was not made on"),
                "bad01", r.sent, "the request of one call was transmitted twice")
  IN IF r.st = "none" THEN y1
     ELSE SetCall(y1, c, [r EXCEPT !.sent = TRUE, !.id = id, !.P = Cardinality(Potential(y1, c, k))])

(* the client wrote a cancellation for request id `id` on connection k *)
YCancelOut(y0, k, id) ==
  LET y == WrittenAfterClose(y0, k)
      xs == {x \in CallsOf(y, k) : y.call[x].sent /\ y.call[x].id = id}
      y1 == Bad(y, "bad03", xs = {}, "a cancellation was transmitted for a request that was never transmitted")
      y2 == Bad(y1, "bad03", \E x \in xs : y.call[x].canc >= 1, "two cancellations were transmitted for one request")
      y3 == Bad(y2, "bad03", \E x \in xs : y.call[x].st \in {"ok", "throttled"}, "a cancellation was transmitted for a call that resolved normally")
  IN IF xs = {} THEN y3 ELSE LET x == CHOOSE x \in xs : TRUE IN SetCall(y3, x, [y3.call[x] EXCEPT !.canc = @ + 1])

(* the server wrote a response (of any kind) bearing request id `id` on connection k *)
YServerOut(y0, k, id) ==
  LET y == y0
      xs == {x \in CallsOf(y, k) : y.call[x].sent /\ y.call[x].id = id}
      y1 == Bad(y, "bad01", xs = {}, "a response was transmitted that answers no request read on its connection")
      y2 == Bad(y1, "bad01", \E x \in xs : y.call[x].ans, "two responses were transmitted for one request")
  IN IF xs = {} THEN y2 ELSE LET x == CHOOSE x \in xs : TRUE IN SetCall(y2, x, [y2.call[x] EXCEPT !.ans = TRUE])

Live(y, x) == y.call[x].st = "pending" /\ y.call[x].h = "running" /\ y.now < y.call[x].dl

YHandlerStart(y0, k, c, inc, tr, smp) ==
  LET y == y0
      r == Call(y, c)
      others == {x \in CallsOf(y, k) \ {c} : Live(y, x)}
      y1 == Bad(y, "bad01", r.st = "none" \/ r.k # k \/ ~r.sent, "the service function was invoked for a request that was never sent on this connection")
      y2 == Bad(y1, "bad01", r.starts > 0, "the service function was invoked twice for one request")
      y3 == Bad(y2, "bad12", y.limit >= 0 /\ Cardinality(others) >= y.limit,
                "a request was handed to the application while L requests of its channel were still in flight")
      y4 == Bad(y3, "bad12", r.st = "throttled", "a refused request was executed")
      y5a == Bad(y4, "bad13", Conn(y, k).st \in {"shed", "offered", "none"}, "a request was served on a channel that was shed or never accepted")
      \* C18 with many requests in flight: the handler observes the trace id and sampling decision of its own call
      y5 == Bad(y5a, "bad18", r.st # "none" /\ (tr # r.tr \/ smp # r.smp),
                "a handler observed another trace id or sampling decision than its own call was made with")
  IN IF r.st = "none" THEN y5
     ELSE SetCall(y5, c, [r EXCEPT !.h = "running", !.starts = @ + 1, !.inc = inc])

YHandlerEnd(y0, c, inc, finished) ==
  LET y == y0
      r == Call(y, c)
      y1 == Bad(y, "bad06", ~finished /\ ~y.down /\ r.st = "pending" /\ y.now < r.dl /\ Conn(y, r.k).st = "alive" /\ ~Conn(y, r.k).sfail,
                "a handler was aborted before its deadline although its call was neither abandoned nor failed")
  IN IF r.st = "none" \/ r.inc # inc THEN y1
     ELSE SetCall(y1, c, [r EXCEPT !.h = IF finished THEN "finished" ELSE "aborted"])

YComplete(y0, c) ==
  LET y == y0 IN
  IF c \in DOMAIN y.call THEN SetCall(y, c, [y.call[c] EXCEPT !.gate = TRUE]) ELSE y

YAbandon(y0, c) ==
  LET y == y0 IN
  IF c \in DOMAIN y.call /\ y.call[c].st = "pending" THEN SetCall(y, c, [y.call[c] EXCEPT !.st = "abandoned"]) ELSE y

ConnErr == {"shutdown", "channel", "send"}

(* call c resolved: res in ok / throttled / deadline / shutdown / channel / send / server; (rc, rinc) = the body of an ok reply *)
YResolved(y0, c, res, rc, rinc) ==
  LET y == y0
      r == Call(y, c)
      y1 == Bad(y, "bad01", r.st # "pending", "a call resolved that was not pending")
      y2 == Bad(y1, "bad01", res = "ok" /\ (rc # c \/ rinc # r.inc \/ r.h # "finished" \/ ~r.sent),
                "a call succeeded with a body that no finished handler of its own request produced")
      y3 == Bad(y2, "bad12", res = "throttled" /\ r.starts > 0, "a refused request was executed")
      y4 == Bad(y3, "bad12", res = "throttled" /\ (y.limit < 0 \/ r.P < y.limit),
                "a request was refused although fewer than L requests of its channel could have been in flight")
      y5 == Bad(y4, "bad05", res = "deadline" /\ y.now < r.dl, "a call failed with a deadline error before its deadline")
      y6 == Bad(y5, "bad01", res \in ConnErr /\ ~y.down /\ Conn(y, r.k).st = "alive",
                "a call failed with a connection error on a healthy connection")
      y7 == Bad(y6, "bad01", res = "server", "a call failed with a server error nobody produced")
  IN IF r.st # "pending" THEN y7 ELSE SetCall(y7, c, [r EXCEPT !.st = res])

YDropClient(y0, k) ==
  LET y == y0 IN
  IF k \in DOMAIN y.conn THEN SetConn(y, k, [y.conn[k] EXCEPT !.cdrop = TRUE]) ELSE y

YTick(y0, d) == LET y == y0 IN [y EXCEPT !.now = @ + d]
YTeardown(y0) == [y0 EXCEPT !.down = TRUE]
YPanic(y0) == LET y == y0 IN Bad(Bad(y, "bad01", TRUE, "panic"), "bad02", TRUE, "panic")

(* a spawned task never returned control to the runtime (the harness's watchdog ended the run): nothing can be served, *)
(* answered, cancelled, expired or shut down any more - every end-to-end reading is violated                           *)
YHang(y0) ==
  LET why == "a task never returned control to the runtime"
      fs == <<"bad01", "bad02", "bad03", "bad04", "bad05", "bad06", "bad09", "bad10", "bad12", "bad13", "bad14", "bad18">>
      F[i \in 0..Len(fs)] == IF i = 0 THEN y0 ELSE Bad(F[i - 1], fs[i], TRUE, why)
  IN F[Len(fs)]

(* the runtime has nothing left to run *)
YIdle(y0, busy) ==
  LET y == y0
      cs == DOMAIN y.call
      pend == {c \in cs : y.call[c].st = "pending"}
      SentPending(k) == {x \in CallsOf(y, k) : y.call[x].st = "pending" /\ y.call[x].sent}
      y1 == Bad(y, "bad02", busy, "the runtime never ran out of work")
      y1b == Bad(y1, "bad03", \E c \in cs : y.call[c].st = "abandoned" /\ y.call[c].sent /\ ~y.call[c].ans /\ y.call[c].canc = 0
                                          /\ y.now < y.call[c].dl /\ Conn(y, y.call[c].k).st = "alive",
                 "an abandoned call's request was transmitted and never answered, but no cancellation followed it")
      y2 == Bad(y1b, "bad04", \E c \in cs : y.call[c].st = "abandoned" /\ y.call[c].h = "running",
                "the handler of an abandoned call is still running once the system is idle")
      y3 == Bad(y2, "bad06", \E c \in cs : y.call[c].h = "running" /\ y.now >= y.call[c].dl + 1,
                "a handler is still running after its request's deadline once the system is idle")
      y4 == Bad(y3, "bad05", \E c \in pend : y.call[c].sent /\ y.now >= y.call[c].dl + 1,
                "a transmitted call is still pending after its deadline once the system is idle")
      y5 == Bad(y4, "bad02", \E c \in pend : y.call[c].sent /\ y.now < y.call[c].dl /\ ~(y.call[c].h = "running" /\ ~y.call[c].gate),
                "a transmitted call is pending at idle although its handler is not waiting for anything")
      y6 == Bad(y5, "bad02", \E c \in pend : ~y.call[c].sent /\ Cardinality(SentPending(y.call[c].k)) < y.mif,
                "a call is not transmitted at idle although the client has capacity")
      y7 == Bad(y6, "bad13", \E k \in DOMAIN y.conn : y.conn[k].st \in {"offered", "deciding"},
                "an offered channel was neither admitted nor shed once the system is idle")
      y8 == Bad(y7, "bad10", \E k \in DOMAIN y.conn : y.conn[k].st = "alive" /\ y.conn[k].cdrop
                               /\ \A x \in CallsOf(y, k) : y.call[x].st # "pending" /\ y.call[x].h # "running",
                "every client handle is gone and nothing is in flight, but the server channel has not ended")
      failed == {k \in DOMAIN y.conn : y.conn[k].sfail}
      y9 == Bad(y8, "bad09", \E k \in failed : y.conn[k].st # "gone",
                "a server channel whose transport failed has not been dropped once the system is idle")
      y10 == Bad(y9, "bad09", \E c \in cs : y.call[c].k \in failed /\ y.call[c].h = "running",
                 "a handler of a channel whose transport failed is still running once the system is idle")
  IN y10

NoBad(y) == y.bad01 = {} /\ y.bad02 = {} /\ y.bad03 = {} /\ y.bad04 = {} /\ y.bad18 = {} /\ y.bad05 = {} /\ y.bad06 = {} /\ y.bad10 = {} /\ y.bad12 = {} /\ y.bad13 = {} /\ y.bad09 = {} /\ y.bad14 = {}
=============================================================================
