------------------------------ MODULE ObsKeys ------------------------------
(***************************************************************************)
(* Observer for the per-key channel limiter (property C13).                *)
(* Variables are only what a user of the limited stream can see: which     *)
(* channels (identified by arrival number) were yielded with which key,    *)
(* which of them were closed (dropped), which arrivals were shed.          *)
(* The same actions are taken by the mechanism model ChannelsPerKey.tla    *)
(* and by the trace driver Trace_Keys.tla, so the invariants below are     *)
(* checked on the model and on executions of the real code alike.          *)
(***************************************************************************)
EXTENDS Naturals, FiniteSets

VARIABLES
  olimit,     \* n, the configured limit
  olive,      \* set of <<ch, key>>: yielded and not yet closed
  oarrived,   \* set of ch: handed to the listener
  oresolved,  \* set of ch: yielded or shed
  oshedBad,   \* set of <<ch, key, alive>>: shed although fewer than n were alive
  opending    \* TRUE iff the limiter's last poll returned Pending and nothing arrived since

ObsVars == <<olimit, olive, oarrived, oresolved, oshedBad, opending>>

LiveOf(k) == {p \in olive : p[2] = k}

ObsInit(n) ==
  /\ olimit = n
  /\ olive = {}
  /\ oarrived = {}
  /\ oresolved = {}
  /\ oshedBad = {}
  /\ opending = FALSE

ObsReset(n) ==
  /\ olimit' = n
  /\ olive' = {}
  /\ oarrived' = {}
  /\ oresolved' = {}
  /\ oshedBad' = {}
  /\ opending' = FALSE

ObsArrive(ch) ==
  /\ oarrived' = oarrived \cup {ch}
  /\ opending' = FALSE
  /\ UNCHANGED <<olimit, olive, oresolved, oshedBad>>

ObsYield(ch, k) ==
  /\ olive' = olive \cup {<<ch, k>>}
  /\ oresolved' = oresolved \cup {ch}
  /\ opending' = FALSE
  /\ UNCHANGED <<olimit, oarrived, oshedBad>>

ObsShed(ch, k) ==
  /\ oshedBad' = IF Cardinality(LiveOf(k)) < olimit
                   THEN oshedBad \cup {<<ch, k, Cardinality(LiveOf(k))>>}
                   ELSE oshedBad
  /\ oresolved' = oresolved \cup {ch}
  /\ UNCHANGED <<olimit, olive, oarrived, opending>>

ObsClose(ch) ==
  /\ olive' = {p \in olive : p[1] # ch}
  /\ UNCHANGED <<olimit, oarrived, oresolved, oshedBad, opending>>

ObsPending ==
  /\ opending' = TRUE
  /\ UNCHANGED <<olimit, olive, oarrived, oresolved, oshedBad>>

(* C13: at no time more than n yielded channels with the same key alive *)
Inv_C13a == \A p \in olive : Cardinality(LiveOf(p[2])) <= olimit
(* C13: a channel is shed only if n channels with its key are alive at that moment *)
Inv_C13b == oshedBad = {}
(* C13 (capacity is really offered to later arrivals): when the limiter goes idle every *)
(* arrival has been decided -- none is left sitting in the listener.                    *)
Inv_C13c == opending => oarrived \subseteq oresolved

=============================================================================
