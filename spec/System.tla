------------------------------- MODULE System -------------------------------
(***************************************************************************)
(* The whole stack as an application composes it (server::incoming and the *)
(* spawned client), at the level of the guarantees established for the     *)
(* parts by Client.tla, Server.tla and ChannelsPerKey.tla:                 *)
(*                                                                         *)
(*   connections offered to a listener -> per-key admission (n per key)    *)
(*   -> per-channel request limit (L) -> one spawned handler task per      *)
(*   request; per connection a spawned client dispatch with an in-flight    *)
(*   maximum, calls made through cloned handles, abandoned by dropping.    *)
(*                                                                         *)
(* Every step that an application or a wire tap can see performs the       *)
(* matching recording operator of ObsSys.tla, so the end-to-end rules      *)
(* (bad01 .. bad14 stay empty) are checked by TLC on every interleaving of *)
(* this model and, with the same formulas, on the traces of the real stack *)
(* (Trace_Sys.tla).  With Phased = TRUE the environment acts only while    *)
(* the system is idle, which is how the harness drives the real runtime    *)
(* (application steps, then run until idle); those behaviours are exported *)
(* as schedules.  With Phased = FALSE environment and system steps         *)
(* interleave freely (a multi-threaded runtime).                           *)
(***************************************************************************)
EXTENDS ObsSys

CONSTANTS Conns, Keys, Calls, N, L, Mif, Deadlines, MaxTime, MaxEnv, Phased, ExportSched,
          Faults    \* TRUE: the server's transport of a connection may fail once, at any moment

VARIABLES y,        \* observer record (ObsSys)
          lq,       \* listener: connections offered, not yet looked at
          srv,      \* server side of a connection: none | queued | open | shed | eofseen | gone
          ckey, chand, cdead, closed,
          cq,       \* client: calls accepted by the handle, not yet transmitted (FIFO)
          cinf,     \* client: transmitted and unfinished
          cpend,    \* client: cancellations queued by dropped calls
          c2s, s2c, \* the two directions of the in-memory transport (FIFO)
          sinf,     \* server channel: requests in flight
          respq,    \* server: responses of finished handlers, not yet written
          hs,       \* handler task of a call: none | spawned | running | aborting | done | aborted
          cst, ck, dl, gate,
          now, phase, sched,
          nenv      \* application steps taken so far (bounded by MaxEnv)

vars == <<y, lq, srv, ckey, chand, cdead, closed, cq, cinf, cpend, c2s, s2c, sinf, respq, hs, cst, ck, dl, gate, now, phase, sched, nenv>>
mech == <<lq, srv, ckey, chand, cdead, closed, cq, cinf, cpend, c2s, s2c, sinf, respq, hs, cst, ck, dl, gate, now>>

Init ==
  /\ y = YInit(N, L, Mif)
  /\ lq = <<>> /\ srv = [k \in Conns |-> "none"] /\ ckey = [k \in Conns |-> 0]
  /\ chand = [k \in Conns |-> FALSE] /\ cdead = [k \in Conns |-> FALSE] /\ closed = [k \in Conns |-> FALSE]
  /\ cq = [k \in Conns |-> <<>>] /\ cinf = [k \in Conns |-> {}] /\ cpend = [k \in Conns |-> {}]
  /\ c2s = [k \in Conns |-> <<>>] /\ s2c = [k \in Conns |-> <<>>]
  /\ sinf = [k \in Conns |-> {}] /\ respq = [k \in Conns |-> <<>>]
  /\ hs = [c \in Calls |-> "none"] /\ cst = [c \in Calls |-> "idle"] /\ ck = [c \in Calls |-> 0]
  /\ dl = [c \in Calls |-> 0] /\ gate = [c \in Calls |-> FALSE]
  /\ now = 0 /\ phase = "env" /\ sched = <<>> /\ nenv = 0

Log(s) == /\ sched' = IF ExportSched THEN Append(sched, s) ELSE sched
          /\ nenv < MaxEnv /\ nenv' = nenv + 1
EnvOK == ~Phased \/ phase = "env"
SysOK == ~Phased \/ phase = "sys"
Rm(s, c) == SelectSeq(s, LAMBDA x : x # c)

(* ----------------------------- environment ----------------------------- *)
E_Connect(k, key) ==
  /\ EnvOK /\ srv[k] = "none"
  /\ srv' = [srv EXCEPT ![k] = "queued"] /\ ckey' = [ckey EXCEPT ![k] = key] /\ chand' = [chand EXCEPT ![k] = TRUE]
  /\ lq' = Append(lq, k)
  /\ y' = YConnect(y, k, key)
  /\ Log([a |-> "Connect", k |-> k, key |-> key])
  /\ UNCHANGED <<cdead, closed, cq, cinf, cpend, c2s, s2c, sinf, respq, hs, cst, ck, dl, gate, now, phase>>

E_Call(c, k, d) ==
  /\ EnvOK /\ cst[c] = "idle" /\ chand[k]
  /\ cst' = [cst EXCEPT ![c] = "queued"] /\ ck' = [ck EXCEPT ![c] = k] /\ dl' = [dl EXCEPT ![c] = now + d]
  /\ cq' = [cq EXCEPT ![k] = Append(@, c)]
  /\ y' = YCall(y, c, k, now + d, "t", TRUE)
  /\ Log([a |-> "Call", c |-> c, k |-> k, dl |-> d])
  /\ UNCHANGED <<lq, srv, ckey, chand, cdead, closed, cinf, cpend, c2s, s2c, sinf, respq, hs, gate, now, phase>>

E_Complete(c) ==
  /\ EnvOK /\ cst[c] # "idle" /\ ~gate[c]
  /\ gate' = [gate EXCEPT ![c] = TRUE]
  /\ y' = YComplete(y, c)
  /\ Log([a |-> "Complete", c |-> c])
  /\ UNCHANGED <<lq, srv, ckey, chand, cdead, closed, cq, cinf, cpend, c2s, s2c, sinf, respq, hs, cst, ck, dl, now, phase>>

(* the caller drops the call: a queued request is never sent, a transmitted one owes a cancellation *)
E_Abandon(c) ==
  /\ EnvOK /\ cst[c] \in {"queued", "sent"}
  /\ cst' = [cst EXCEPT ![c] = "abandoned"]
  /\ cq' = [cq EXCEPT ![ck[c]] = Rm(@, c)]
  /\ cpend' = [cpend EXCEPT ![ck[c]] = IF cst[c] = "sent" THEN @ \cup {c} ELSE @]
  /\ y' = YAbandon(y, c)
  /\ Log([a |-> "Abandon", c |-> c])
  /\ UNCHANGED <<lq, srv, ckey, chand, cdead, closed, cinf, c2s, s2c, sinf, respq, hs, ck, dl, gate, now, phase>>

E_DropClient(k) ==
  /\ EnvOK /\ chand[k]
  /\ chand' = [chand EXCEPT ![k] = FALSE]
  /\ y' = YDropClient(y, k)
  /\ Log([a |-> "DropClient", k |-> k])
  /\ UNCHANGED <<lq, srv, ckey, cdead, closed, cq, cinf, cpend, c2s, s2c, sinf, respq, hs, cst, ck, dl, gate, now, phase>>

E_Tick ==
  /\ EnvOK /\ now < MaxTime
  /\ now' = now + 1
  /\ y' = YTick(y, 1)
  /\ Log([a |-> "Tick", d |-> 1])
  /\ UNCHANGED <<lq, srv, ckey, chand, cdead, closed, cq, cinf, cpend, c2s, s2c, sinf, respq, hs, cst, ck, dl, gate, phase>>

(* ----------------------------- server side ----------------------------- *)
AliveKey(key) == {j \in Conns : srv[j] \in {"open", "eofseen"} /\ ckey[j] = key}

(* the per-key limiter looks at the next offered connection: admitted, or dropped on the spot *)
S_Arrive ==
  /\ SysOK /\ lq # <<>>
  /\ LET k == Head(lq) admit == N = 0 \/ Cardinality(AliveKey(ckey[k])) < N IN
     /\ lq' = Tail(lq)
     /\ srv' = [srv EXCEPT ![k] = IF admit THEN "open" ELSE "shed"]
     /\ s2c' = [s2c EXCEPT ![k] = IF admit THEN @ ELSE Append(@, <<"eof", 0>>)]
     /\ y' = IF admit THEN YAdmitted(YArrive(y, k, ckey[k]), k) ELSE YServerDrop(YArrive(y, k, ckey[k]), k)
  /\ UNCHANGED <<ckey, chand, cdead, closed, cq, cinf, cpend, c2s, sinf, respq, hs, cst, ck, dl, gate, now, phase, sched, nenv>>

Abort(h, c) == [h EXCEPT ![c] = IF @ = "running" THEN "aborting" ELSE IF @ = "spawned" THEN "aborted" ELSE @]

(* the channel reads the next message of its connection *)
S_Read(k) ==
  /\ SysOK /\ srv[k] = "open" /\ c2s[k] # <<>>
  /\ LET msg == Head(c2s[k]) c == msg[2] IN
     /\ c2s' = [c2s EXCEPT ![k] = Tail(@)]
     /\ CASE msg[1] = "req" ->
               IF L >= 0 /\ Cardinality(sinf[k]) >= L
                 THEN /\ s2c' = [s2c EXCEPT ![k] = Append(@, <<"throttle", c>>)]
                      /\ y' = YServerOut(y, k, c)
                      /\ UNCHANGED <<sinf, hs, srv>>
                 ELSE /\ sinf' = [sinf EXCEPT ![k] = @ \cup {c}]
                      /\ hs' = [hs EXCEPT ![c] = "spawned"]
                      /\ UNCHANGED <<s2c, y, srv>>
          [] msg[1] = "cancel" ->
               /\ sinf' = [sinf EXCEPT ![k] = @ \ {c}]
               /\ hs' = IF c \in sinf[k] THEN Abort(hs, c) ELSE hs
               /\ UNCHANGED <<s2c, y, srv>>
          [] msg[1] = "eof" ->
               /\ srv' = [srv EXCEPT ![k] = "eofseen"]
               /\ UNCHANGED <<s2c, y, sinf, hs>>
  /\ UNCHANGED <<lq, ckey, chand, cdead, closed, cq, cinf, cpend, respq, cst, ck, dl, gate, now, phase, sched, nenv>>

S_HStart(c) ==
  /\ SysOK /\ hs[c] = "spawned"
  /\ hs' = [hs EXCEPT ![c] = "running"]
  /\ y' = YHandlerStart(y, ck[c], c, c, "t", TRUE)
  /\ UNCHANGED <<lq, srv, ckey, chand, cdead, closed, cq, cinf, cpend, c2s, s2c, sinf, respq, cst, ck, dl, gate, now, phase, sched, nenv>>

S_HFinish(c) ==
  /\ SysOK /\ hs[c] = "running" /\ gate[c]
  /\ hs' = [hs EXCEPT ![c] = "done"]
  /\ respq' = [respq EXCEPT ![ck[c]] = Append(@, c)]
  /\ y' = YHandlerEnd(y, c, c, TRUE)
  /\ UNCHANGED <<lq, srv, ckey, chand, cdead, closed, cq, cinf, cpend, c2s, s2c, sinf, cst, ck, dl, gate, now, phase, sched, nenv>>

(* an aborted handler task is dropped when the runtime polls it next *)
S_HDrop(c) ==
  /\ SysOK /\ hs[c] = "aborting"
  /\ hs' = [hs EXCEPT ![c] = "aborted"]
  /\ y' = YHandlerEnd(y, c, c, FALSE)
  /\ UNCHANGED <<lq, srv, ckey, chand, cdead, closed, cq, cinf, cpend, c2s, s2c, sinf, respq, cst, ck, dl, gate, now, phase, sched, nenv>>

(* a finished handler's response is written only while its request is still tracked *)
S_WriteResp(k) ==
  /\ SysOK /\ respq[k] # <<>> /\ srv[k] \in {"open", "eofseen"}
  /\ LET c == Head(respq[k]) IN
     /\ respq' = [respq EXCEPT ![k] = Tail(@)]
     /\ IF c \in sinf[k]
          THEN /\ sinf' = [sinf EXCEPT ![k] = @ \ {c}]
               /\ s2c' = [s2c EXCEPT ![k] = Append(@, <<"resp", c>>)]
               /\ y' = YServerOut(y, k, c)
          ELSE UNCHANGED <<sinf, s2c, y>>
  /\ UNCHANGED <<lq, srv, ckey, chand, cdead, closed, cq, cinf, cpend, c2s, hs, cst, ck, dl, gate, now, phase, sched, nenv>>

S_SrvExpire(c) ==
  /\ SysOK /\ ck[c] # 0 /\ c \in sinf[ck[c]] /\ now >= dl[c]
  /\ sinf' = [sinf EXCEPT ![ck[c]] = @ \ {c}]
  /\ hs' = Abort(hs, c)
  /\ UNCHANGED <<y, lq, srv, ckey, chand, cdead, closed, cq, cinf, cpend, c2s, s2c, respq, cst, ck, dl, gate, now, phase, sched, nenv>>

(* the peer has closed and nothing is in flight: the channel ends and its transport is dropped *)
S_SrvEnd(k) ==
  /\ SysOK /\ srv[k] = "eofseen" /\ sinf[k] = {} /\ respq[k] = <<>>
  /\ srv' = [srv EXCEPT ![k] = "gone"]
  /\ s2c' = [s2c EXCEPT ![k] = Append(@, <<"eof", 0>>)]
  /\ y' = YServerDrop(y, k)
  /\ UNCHANGED <<lq, ckey, chand, cdead, closed, cq, cinf, cpend, c2s, sinf, respq, hs, cst, ck, dl, gate, now, phase, sched, nenv>>

(* the server's transport of connection k reports a failure (at a read, a readiness check or a flush): the channel's   *)
(* stream yields the error and ends, the channel is dropped - nothing more is read or written, responses not yet written *)
(* are lost, its handlers are aborted - and the client sees the connection end                                           *)
S_SrvFault(k) ==
  /\ Faults /\ SysOK /\ srv[k] \in {"open", "eofseen"}
  /\ srv' = [srv EXCEPT ![k] = "gone"]
  /\ hs' = [c \in Calls |-> IF c \in sinf[k] THEN Abort(hs, c)[c] ELSE hs[c]]
  /\ sinf' = [sinf EXCEPT ![k] = {}]
  /\ respq' = [respq EXCEPT ![k] = <<>>]
  /\ s2c' = [s2c EXCEPT ![k] = Append(@, <<"eof", 0>>)]
  /\ y' = YServerDrop(YServerFault(y, k), k)
  /\ UNCHANGED <<lq, ckey, chand, cdead, closed, cq, cinf, cpend, c2s, cst, ck, dl, gate, now, phase, sched, nenv>>

(* ----------------------------- client side ----------------------------- *)
(* the dispatch transmits the next queued request while it has capacity *)
S_Send(k) ==
  /\ SysOK /\ ~cdead[k] /\ ~closed[k] /\ cq[k] # <<>> /\ Cardinality(cinf[k]) < Mif
  /\ LET c == Head(cq[k]) IN
     /\ cq' = [cq EXCEPT ![k] = Tail(@)]
     /\ cinf' = [cinf EXCEPT ![k] = @ \cup {c}]
     /\ cst' = [cst EXCEPT ![c] = "sent"]
     /\ c2s' = [c2s EXCEPT ![k] = Append(@, <<"req", c>>)]
     /\ y' = YSend(y, c, k, c)
  /\ UNCHANGED <<lq, srv, ckey, chand, cdead, closed, cpend, s2c, sinf, respq, hs, ck, dl, gate, now, phase, sched, nenv>>

(* the dispatch processes a queued cancellation: the request leaves the table and a Cancel follows it on the wire *)
S_Cancel(k) ==
  /\ SysOK /\ ~cdead[k] /\ cpend[k] # {}
  /\ \E c \in cpend[k] :
       /\ cpend' = [cpend EXCEPT ![k] = @ \ {c}]
       /\ cinf' = [cinf EXCEPT ![k] = @ \ {c}]
       /\ c2s' = [c2s EXCEPT ![k] = IF c \in cinf[k] THEN Append(@, <<"cancel", c>>) ELSE @]
       /\ y' = IF c \in cinf[k] THEN YCancelOut(y, k, c) ELSE y
  /\ UNCHANGED <<lq, srv, ckey, chand, cdead, closed, cq, s2c, sinf, respq, hs, cst, ck, dl, gate, now, phase, sched, nenv>>

S_CliExpire(c) ==
  /\ SysOK /\ ck[c] # 0 /\ c \in cinf[ck[c]] /\ ~cdead[ck[c]] /\ now >= dl[c]
  /\ cinf' = [cinf EXCEPT ![ck[c]] = @ \ {c}]
  /\ IF cst[c] = "sent"
       THEN cst' = [cst EXCEPT ![c] = "resolved"] /\ y' = YResolved(y, c, "deadline", 0, 0)
       ELSE UNCHANGED <<cst, y>>
  /\ UNCHANGED <<lq, srv, ckey, chand, cdead, closed, cq, cpend, c2s, s2c, sinf, respq, hs, ck, dl, gate, now, phase, sched, nenv>>

(* the dispatch reads the next message of its connection *)
S_CliRecv(k) ==
  /\ SysOK /\ ~cdead[k] /\ s2c[k] # <<>> /\ Head(s2c[k])[1] # "eof"
  /\ LET msg == Head(s2c[k]) c == msg[2] live == c \in cinf[k] /\ cst[c] = "sent" IN
     /\ s2c' = [s2c EXCEPT ![k] = Tail(@)]
     /\ cinf' = [cinf EXCEPT ![k] = @ \ {c}]
     /\ cst' = IF live THEN [cst EXCEPT ![c] = "resolved"] ELSE cst
     /\ y' = IF live THEN YResolved(y, c, IF msg[1] = "resp" THEN "ok" ELSE "throttled", c, c) ELSE y
  /\ UNCHANGED <<lq, srv, ckey, chand, cdead, closed, cq, cpend, c2s, sinf, respq, hs, ck, dl, gate, now, phase, sched, nenv>>

(* the server side is gone: the dispatch ends, every call of the connection fails *)
S_CliEof(k) ==
  /\ SysOK /\ ~cdead[k] /\ s2c[k] # <<>> /\ Head(s2c[k])[1] = "eof"
  /\ cdead' = [cdead EXCEPT ![k] = TRUE]
  /\ UNCHANGED <<y, lq, srv, ckey, chand, closed, cq, cinf, cpend, c2s, s2c, sinf, respq, hs, cst, ck, dl, gate, now, phase, sched, nenv>>

(* a call on a dead dispatch fails *)
S_Fail(c) ==
  /\ SysOK /\ cst[c] \in {"queued", "sent"} /\ cdead[ck[c]]
  /\ cst' = [cst EXCEPT ![c] = "resolved"]
  /\ cq' = [cq EXCEPT ![ck[c]] = Rm(@, c)]
  /\ y' = YResolved(y, c, "shutdown", 0, 0)
  /\ UNCHANGED <<lq, srv, ckey, chand, cdead, closed, cinf, cpend, c2s, s2c, sinf, respq, hs, ck, dl, gate, now, phase, sched, nenv>>

(* the last handle is gone (every call future owns one) and everything queued has been written: the dispatch closes *)
S_CliClose(k) ==
  /\ SysOK /\ srv[k] # "none" /\ ~chand[k] /\ ~cdead[k] /\ ~closed[k] /\ cpend[k] = {} /\ cq[k] = <<>>
  /\ \A c \in Calls : ck[c] = k => cst[c] \notin {"queued", "sent"}
  /\ closed' = [closed EXCEPT ![k] = TRUE]
  /\ c2s' = [c2s EXCEPT ![k] = Append(@, <<"eof", 0>>)]
  /\ y' = YClientGone(YClientClose(y, k), k)
  /\ UNCHANGED <<lq, srv, ckey, chand, cdead, cq, cinf, cpend, s2c, sinf, respq, hs, cst, ck, dl, gate, now, phase, sched, nenv>>

SysStep ==
  \/ S_Arrive
  \/ \E k \in Conns : S_Read(k) \/ S_WriteResp(k) \/ S_SrvEnd(k) \/ S_Send(k) \/ S_Cancel(k) \/ S_CliRecv(k) \/ S_CliEof(k) \/ S_CliClose(k) \/ S_SrvFault(k)
  \/ \E c \in Calls : S_HStart(c) \/ S_HFinish(c) \/ S_HDrop(c) \/ S_SrvExpire(c) \/ S_CliExpire(c) \/ S_Fail(c)

(* guards of the system steps, for "nothing left to run" *)
SysEnabled ==
  \/ lq # <<>>
  \/ \E k \in Conns :
       \/ (srv[k] = "open" /\ c2s[k] # <<>>)
       \/ (respq[k] # <<>> /\ srv[k] \in {"open", "eofseen"})
       \/ (srv[k] = "eofseen" /\ sinf[k] = {} /\ respq[k] = <<>>)
       \/ (~cdead[k] /\ ~closed[k] /\ cq[k] # <<>> /\ Cardinality(cinf[k]) < Mif)
       \/ (~cdead[k] /\ cpend[k] # {})
       \/ (~cdead[k] /\ s2c[k] # <<>>)
       \/ (srv[k] # "none" /\ ~chand[k] /\ ~cdead[k] /\ ~closed[k] /\ cpend[k] = {} /\ cq[k] = <<>>
             /\ \A c \in Calls : ck[c] = k => cst[c] \notin {"queued", "sent"})
  \/ \E c \in Calls :
       \/ hs[c] \in {"spawned", "aborting"} \/ (hs[c] = "running" /\ gate[c])
       \/ (ck[c] # 0 /\ c \in sinf[ck[c]] /\ now >= dl[c])
       \/ (ck[c] # 0 /\ c \in cinf[ck[c]] /\ ~cdead[ck[c]] /\ now >= dl[c])
       \/ (cst[c] \in {"queued", "sent"} /\ cdead[ck[c]])

(* the application hands over to the runtime / the runtime has nothing left to run *)
E_Run ==
  /\ Phased /\ phase = "env"
  /\ phase' = "sys"
  /\ Log([a |-> "Run"])
  /\ UNCHANGED <<y, mech>>
S_Idle ==
  /\ (Phased => phase = "sys")
  /\ ~SysEnabled
  /\ y' = YIdle(y, FALSE)
  /\ phase' = "env"
  /\ UNCHANGED <<mech, sched, nenv>>

EnvStep ==
  \/ \E k \in Conns, key \in Keys : E_Connect(k, key)
  \/ \E c \in Calls, k \in Conns, d \in Deadlines : E_Call(c, k, d)
  \/ \E c \in Calls : E_Complete(c) \/ E_Abandon(c)
  \/ \E k \in Conns : E_DropClient(k)
  \/ E_Tick

Next == EnvStep \/ SysStep \/ E_Run \/ S_Idle
Spec == Init /\ [][Next]_vars

---------------------------------------------------------------------------
(* the end-to-end rules hold on every reachable state *)
Inv_Sys == NoBad(y)
Inv_C01sys == y.bad01 = {}
Inv_C02sys == y.bad02 = {}
Inv_C03sys == y.bad03 = {}
Inv_C04sys == y.bad04 = {}
Inv_C05sys == y.bad05 = {}
Inv_C06sys == y.bad06 = {}
Inv_C10sys == y.bad10 = {}
Inv_C12sys == y.bad12 = {}
Inv_C13sys == y.bad13 = {}
TypeOK == /\ \A k \in Conns : cinf[k] \subseteq Calls /\ sinf[k] \subseteq Calls /\ Cardinality(cinf[k]) <= Mif
          /\ (L >= 0 => \A k \in Conns : Cardinality(sinf[k]) <= L)
          /\ (N > 0 => \A key \in Keys : Cardinality(AliveKey(key)) <= N)
View == <<mech, phase, nenv>>
(* a behaviour is complete when the application has taken all its steps and the system is idle again *)
Done == nenv = MaxEnv /\ phase = "env" /\ ~SysEnabled
=============================================================================
