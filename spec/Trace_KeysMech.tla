--------------------------- MODULE Trace_KeysMech ---------------------------
(***************************************************************************)
(* Code -> mechanism conformance for MaxChannelsPerKey, in the action      *)
(* style: each event of a recorded trace of the harness family `keys` must *)
(* be explained by the action of ChannelsPerKey.tla it names, with the      *)
(* logged fields bound to the action's parameters:                          *)
(*   Arrive / Close / End     the environment actions                       *)
(*   Shed                     P_Listener taking its shed branch             *)
(*   Yield / PollPending / StreamEnd   P_Match returning that result        *)
(* The micro-steps of a poll that the code does not log (P_Begin, a         *)
(* P_Listener that admits or finds nothing, P_Closed, a P_Match that        *)
(* continues the loop) are silent steps, enabled only while the next event  *)
(* of the trace is a poll outcome - so exactly one action is enabled in     *)
(* every state and validation is linear.  When no action explains the next  *)
(* event the scenario has diverged from the specification: a MECH line is   *)
(* printed and the scenario is skipped from there.                          *)
(* Limit is a constant: the driver runs this module once per limit.         *)
(***************************************************************************)
EXTENDS ChannelsPerKey, Json, IOUtils

TraceRec == ndJsonDeserialize(IOEnv.TRACE)
MechKeys == 1..6
VARIABLES l, live, total, good
tvars == <<vars, l, live, total, good>>
ctl == <<live, total, good>>

Ev == TraceRec[l]
More == l <= Len(TraceRec)
Is(name) == More /\ live /\ Ev.ev = name
Consume == l' = l + 1 /\ UNCHANGED ctl
Silent == More /\ live /\ Ev.ev \in {"Shed", "Yield", "PollPending", "StreamEnd"} /\ UNCHANGED <<l, ctl>>

MInit == Init /\ l = 1 /\ live = FALSE /\ total = 0 /\ good = 0

ResetModel ==
  /\ lq' = <<>> /\ lended' = FALSE /\ lwaker' = FALSE /\ nextCh' = 0
  /\ keyMap' = [k \in Keys |-> 0] /\ trCnt' = [t \in 1..MaxTr |-> 0] /\ nextTr' = 0
  /\ chTr' = <<>> /\ chKey' = <<>> /\ notif' = <<>> /\ nwaker' = FALSE /\ woken' = TRUE
  /\ pc' = "idle" /\ lres' = "none" /\ cres' = "none" /\ held' = None3 /\ sched' = <<>>
  /\ ObsReset(Limit)

TReset == More /\ Ev.ev = "Reset" /\ ResetModel /\ l' = l + 1 /\ live' = TRUE /\ total' = total + 1 /\ good' = good
TEnd == More /\ Ev.ev = "EndScenario" /\ l' = l + 1 /\ live' = FALSE /\ total' = total
        /\ good' = (IF live THEN good + 1 ELSE good) /\ UNCHANGED vars
TOther == More /\ (Ev.ev \in {"Wake", "Panic", "Exhaust"} \/ (~live /\ Ev.ev \notin {"Reset", "EndScenario"}))
          /\ l' = l + 1 /\ UNCHANGED <<vars, ctl>>

TArrive == Is("Arrive") /\ Ev.k \in Keys /\ Arrive(Ev.k) /\ nextCh' = Ev.ch /\ Consume
TClose == Is("Close") /\ Ev.ch \in DOMAIN chTr /\ Close(Ev.ch) /\ Consume
TListenerEnd == Is("End") /\ ListenerEnd /\ Consume

SBegin == Silent /\ P_Begin
SListener == Silent /\ P_Listener /\ lres' # "shed"
TShed == Is("Shed") /\ P_Listener /\ lres' = "shed" /\ Head(lq)[1] = Ev.ch /\ Head(lq)[2] = Ev.k /\ Consume
SClosed == Silent /\ P_Closed
SMatchLoop == Silent /\ P_Match /\ pc' = "listener"
TYield == Is("Yield") /\ pc = "match" /\ lres = "ok" /\ held[1] = Ev.ch /\ held[2] = Ev.k /\ P_Match /\ Consume
TPending == Is("PollPending") /\ pc = "match" /\ lres = "pending" /\ cres = "pending" /\ P_Match /\ Consume
TStreamEnd == Is("StreamEnd") /\ pc = "match" /\ lres = "end" /\ cres = "pending" /\ P_Match /\ Consume

Explained == TArrive \/ TClose \/ TListenerEnd \/ SBegin \/ SListener \/ TShed \/ SClosed \/ SMatchLoop
             \/ TYield \/ TPending \/ TStreamEnd
(* nothing in the specification explains the next event *)
TDiverge == /\ More /\ live /\ Ev.ev \notin {"Reset", "EndScenario", "Wake", "Panic", "Exhaust"}
            /\ ~ENABLED Explained
            /\ PrintT(<<"MECH", Ev.scn, l, "event not explained by the specification", <<Ev.ev, pc, lres, cres, woken>>>>)
            /\ live' = FALSE /\ UNCHANGED <<vars, l, total, good>>

MNext == TReset \/ TEnd \/ TOther \/ Explained \/ TDiverge
MSpec == MInit /\ [][MNext]_tvars
MDone == l = Len(TraceRec) + 1 => PrintT(<<"MECHDONE", total, good>>)
=============================================================================
