-------------------------------- MODULE Wire --------------------------------
(***************************************************************************)
(* The wire: (i) length-delimited framing over a byte stream that          *)
(* fragments reads and writes arbitrarily (serde_transport =               *)
(* tokio_util::codec::Framed<_, LengthDelimitedCodec> + tokio_serde),      *)
(* (ii) deadlines travelling as remaining time (context.rs:                *)
(* absolute_to_relative_time), (iii) the ServerError kind table            *)
(* (util/serde.rs) under the two shipped codecs.                           *)
(***************************************************************************)
EXTENDS Naturals, Integers, Sequences, FiniteSets, TLC, SequencesExt

CONSTANTS MsgLens,      \* sequence of payload lengths of the messages to send, e.g. <<1, 2>>
          MaxChunk,     \* reads / writes move 1..MaxChunk bytes, or are Pending
          PendingBudget,\* how many Pending results the byte stream may inject
          ExportSched, FixF2,
          IoBuf         \* the byte stream buffers internally (BufWriter, TLS, compression): its poll_flush does real work

VARIABLES nsent, wbuf, hold, pipe, rbuf, delivered, wclosed, eos, pend, flushed, sched
vars == <<nsent, wbuf, hold, pipe, rbuf, delivered, wclosed, eos, pend, flushed, sched>>
(* hold: bytes the byte stream accepted (poll_write) but has not passed on yet; flushed: how many messages *)
(* had been sent when the sink last reported a completed flush                                            *)

Frame(i) == <<<<"len", MsgLens[i], i>>>> \o [k \in 1..MsgLens[i] |-> <<"byte", i, k>>]
Rec(a) == IF ExportSched THEN sched' = Append(sched, a) ELSE sched' = sched

Init == /\ nsent = 0 /\ wbuf = <<>> /\ hold = <<>> /\ pipe = <<>> /\ rbuf = <<>> /\ delivered = <<>>
        /\ wclosed = FALSE /\ eos = FALSE /\ pend = 0 /\ flushed = 0 /\ sched = <<>>

(* Sink::start_send: the frame is encoded into the write buffer *)
Send == /\ nsent < Len(MsgLens) /\ ~wclosed
        /\ nsent' = nsent + 1 /\ wbuf' = wbuf \o Frame(nsent + 1)
        /\ Rec([a |-> "send"])
        /\ UNCHANGED <<hold, pipe, rbuf, delivered, wclosed, eos, pend, flushed>>

(* poll_write accepts at most n bytes (into the byte stream's own buffer when it has one) *)
Write(n) == /\ wbuf # <<>>
            /\ LET k == IF n < Len(wbuf) THEN n ELSE Len(wbuf) IN
               /\ IF IoBuf THEN hold' = hold \o SubSeq(wbuf, 1, k) /\ UNCHANGED pipe
                           ELSE pipe' = pipe \o SubSeq(wbuf, 1, k) /\ UNCHANGED hold
               /\ wbuf' = SubSeq(wbuf, k + 1, Len(wbuf))
            /\ Rec([a |-> "w", n |-> n])
            /\ UNCHANGED <<nsent, rbuf, delivered, wclosed, eos, pend, flushed>>
WritePending == /\ wbuf # <<>> /\ pend < PendingBudget /\ pend' = pend + 1 /\ Rec([a |-> "w", n |-> 0])
                /\ UNCHANGED <<nsent, wbuf, hold, pipe, rbuf, delivered, wclosed, eos, flushed>>
(* the byte stream's poll_flush passes on at most n of the bytes it holds, or is Pending *)
IoFlush(n) == /\ hold # <<>> /\ wbuf = <<>>
              /\ LET k == IF n < Len(hold) THEN n ELSE Len(hold) IN
                 /\ pipe' = pipe \o SubSeq(hold, 1, k) /\ hold' = SubSeq(hold, k + 1, Len(hold))
              /\ Rec([a |-> "f", n |-> n])
              /\ UNCHANGED <<nsent, wbuf, rbuf, delivered, wclosed, eos, pend, flushed>>
IoFlushPending == /\ hold # <<>> /\ wbuf = <<>> /\ pend < PendingBudget /\ pend' = pend + 1 /\ Rec([a |-> "f", n |-> 0])
                  /\ UNCHANGED <<nsent, wbuf, hold, pipe, rbuf, delivered, wclosed, eos, flushed>>
(* Sink::poll_flush returns Ready(Ok): nothing is left in the frame buffer nor in the byte stream's buffer *)
FlushDone == /\ wbuf = <<>> /\ hold = <<>> /\ flushed # nsent /\ flushed' = nsent
             /\ UNCHANGED <<nsent, wbuf, hold, pipe, rbuf, delivered, wclosed, eos, pend, sched>>

(* decode as many complete frames as the read buffer holds *)
RECURSIVE Decode(_, _)
Decode(buf, out) ==
  IF buf = <<>> THEN [buf |-> buf, out |-> out]
  ELSE LET L == buf[1][2] IN
       IF Len(buf) >= 1 + L
         THEN Decode(SubSeq(buf, 2 + L, Len(buf)), Append(out, buf[1][3]))
         ELSE [buf |-> buf, out |-> out]

Read(n) == /\ pipe # <<>>
           /\ LET k == IF n < Len(pipe) THEN n ELSE Len(pipe)
                  d == Decode(rbuf \o SubSeq(pipe, 1, k), delivered)
              IN /\ pipe' = SubSeq(pipe, k + 1, Len(pipe)) /\ rbuf' = d.buf /\ delivered' = d.out
           /\ Rec([a |-> "r", n |-> n])
           /\ UNCHANGED <<nsent, wbuf, hold, wclosed, eos, pend, flushed>>
ReadPending == /\ pipe # <<>> /\ pend < PendingBudget /\ pend' = pend + 1 /\ Rec([a |-> "r", n |-> 0])
               /\ UNCHANGED <<nsent, wbuf, hold, pipe, rbuf, delivered, wclosed, eos, flushed>>

(* the writing end is dropped / closed once everything is flushed *)
CloseWriter == /\ nsent = Len(MsgLens) /\ wbuf = <<>> /\ hold = <<>> /\ ~wclosed /\ wclosed' = TRUE /\ Rec([a |-> "close"])
               /\ UNCHANGED <<nsent, wbuf, hold, pipe, rbuf, delivered, eos, pend, flushed>>
ReaderEos == /\ wclosed /\ pipe = <<>> /\ ~eos /\ eos' = TRUE /\ Rec([a |-> "eos"])
             /\ UNCHANGED <<nsent, wbuf, hold, pipe, rbuf, delivered, wclosed, pend, flushed>>

Next == Send \/ (\E n \in 1..MaxChunk : Write(n) \/ Read(n) \/ IoFlush(n)) \/ WritePending \/ ReadPending \/ IoFlushPending
        \/ FlushDone \/ CloseWriter \/ ReaderEos
Spec == Init /\ [][Next]_vars

(* C15: complete, unmodified, in order; end-of-stream after the last message *)
Inv_Prefix == IsPrefix(delivered, [i \in 1..nsent |-> i])
Inv_Eos == eos => (delivered = [i \in 1..Len(MsgLens) |-> i] /\ rbuf = <<>>)
Inv_NoGarbage == \A i \in DOMAIN delivered : delivered[i] = i
(* what the sink reported flushed is readable: once the reader has drained the pipe it has every such message *)
Inv_Flushed == pipe = <<>> => Len(delivered) >= flushed

(* ------------------------------------------------------------------ (ii) deadlines travel as remaining time *)
Max0(x) == IF x > 0 THEN x ELSE 0
Rebase(D, te, td) == td + Max0(D - te)          \* serialize at te: D - te (saturating); deserialize at td: td + that
T == 0..4
ASSUME RebaseLaw ==
  \A D \in T, te \in T, td \in T :
    te <= td => LET Dp == Rebase(D, te, td) IN
                IF D >= te THEN (D <= Dp /\ Dp <= D + (td - te)) ELSE Dp = td
(* a chain of hops never outlives the original deadline by more than the accumulated transit *)
ASSUME ChainLaw ==
  \A D \in T, d1 \in 0..2, d2 \in 0..2, d3 \in 0..2 :
    LET h1 == Rebase(D, 0, d1) h2 == Rebase(h1, d1, d1 + d2) h3 == Rebase(h2, d1 + d2, d1 + d2 + d3)
    IN h3 <= D + d1 + d2 + d3 /\ h3 >= D

(* ------------------------------------------------------------------ (iii) the error-kind table *)
Kinds == 0..17                                  \* the 18 portable kinds; anything else is written as 16 (Other)
EncJson(k) == k
(* bincode's default options write integers as varints; the unfixed table serialises an untyped   *)
(* (i32) literal, i.e. zig-zag, and reads the bytes back as u32                                    *)
EncBincode(k) == IF FixF2 THEN k ELSE 2 * k
Dec(v) == IF v \in Kinds THEN v ELSE 16
ASSUME KindsJson == \A k \in Kinds : Dec(EncJson(k)) = k
KindsBincodeOK == \A k \in Kinds : Dec(EncBincode(k)) = k
ASSUME FixF2 => KindsBincodeOK
=============================================================================
