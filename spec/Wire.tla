-------------------------------- MODULE Wire --------------------------------
(***************************************************************************)
(* The wire: (i) length-delimited framing over a byte stream that          *)
(* fragments reads and writes arbitrarily (serde_transport =               *)
(* tokio_util::codec::Framed<_, LengthDelimitedCodec> + tokio_serde),      *)
(* (ii) deadlines travelling as remaining time (context.rs:                *)
(* absolute_to_relative_time), (iii) the ServerError kind table            *)
(* (util/serde.rs) under the two shipped codecs.                           *)
(***************************************************************************)
EXTENDS Naturals, Integers, Sequences, FiniteSets, TLC, SequencesExt

CONSTANTS MsgLens,      \* sequence of payload lengths of the messages to send, e.g. <<1, 2>>
          MaxChunk,     \* reads / writes move 1..MaxChunk bytes, or are Pending
          PendingBudget,\* how many Pending results the byte stream may inject
          ExportSched, FixF2

VARIABLES nsent, wbuf, pipe, rbuf, delivered, wclosed, eos, pend, sched
vars == <<nsent, wbuf, pipe, rbuf, delivered, wclosed, eos, pend, sched>>

Frame(i) == <<<<"len", MsgLens[i], i>>>> \o [k \in 1..MsgLens[i] |-> <<"byte", i, k>>]
Rec(a) == IF ExportSched THEN sched' = Append(sched, a) ELSE sched' = sched

Init == /\ nsent = 0 /\ wbuf = <<>> /\ pipe = <<>> /\ rbuf = <<>> /\ delivered = <<>>
        /\ wclosed = FALSE /\ eos = FALSE /\ pend = 0 /\ sched = <<>>

(* Sink::start_send: the frame is encoded into the write buffer *)
Send == /\ nsent < Len(MsgLens) /\ ~wclosed
        /\ nsent' = nsent + 1 /\ wbuf' = wbuf \o Frame(nsent + 1)
        /\ Rec([a |-> "send"])
        /\ UNCHANGED <<pipe, rbuf, delivered, wclosed, eos, pend>>

(* poll_write accepts at most n bytes *)
Write(n) == /\ wbuf # <<>>
            /\ LET k == IF n < Len(wbuf) THEN n ELSE Len(wbuf) IN
               /\ pipe' = pipe \o SubSeq(wbuf, 1, k) /\ wbuf' = SubSeq(wbuf, k + 1, Len(wbuf))
            /\ Rec([a |-> "w", n |-> n])
            /\ UNCHANGED <<nsent, rbuf, delivered, wclosed, eos, pend>>
WritePending == /\ wbuf # <<>> /\ pend < PendingBudget /\ pend' = pend + 1 /\ Rec([a |-> "w", n |-> 0])
                /\ UNCHANGED <<nsent, wbuf, pipe, rbuf, delivered, wclosed, eos>>

(* decode as many complete frames as the read buffer holds *)
RECURSIVE Decode(_, _)
Decode(buf, out) ==
  IF buf = <<>> THEN [buf |-> buf, out |-> out]
  ELSE LET L == buf[1][2] IN
       IF Len(buf) >= 1 + L
         THEN Decode(SubSeq(buf, 2 + L, Len(buf)), Append(out, buf[1][3]))
         ELSE [buf |-> buf, out |-> out]

Read(n) == /\ pipe # <<>>
           /\ LET k == IF n < Len(pipe) THEN n ELSE Len(pipe)
                  d == Decode(rbuf \o SubSeq(pipe, 1, k), delivered)
              IN /\ pipe' = SubSeq(pipe, k + 1, Len(pipe)) /\ rbuf' = d.buf /\ delivered' = d.out
           /\ Rec([a |-> "r", n |-> n])
           /\ UNCHANGED <<nsent, wbuf, wclosed, eos, pend>>
ReadPending == /\ pipe # <<>> /\ pend < PendingBudget /\ pend' = pend + 1 /\ Rec([a |-> "r", n |-> 0])
               /\ UNCHANGED <<nsent, wbuf, pipe, rbuf, delivered, wclosed, eos>>

(* the writing end is dropped / closed once everything is flushed *)
CloseWriter == /\ nsent = Len(MsgLens) /\ wbuf = <<>> /\ ~wclosed /\ wclosed' = TRUE /\ Rec([a |-> "close"])
               /\ UNCHANGED <<nsent, wbuf, pipe, rbuf, delivered, eos, pend>>
ReaderEos == /\ wclosed /\ pipe = <<>> /\ ~eos /\ eos' = TRUE /\ Rec([a |-> "eos"])
             /\ UNCHANGED <<nsent, wbuf, pipe, rbuf, delivered, wclosed, pend>>

Next == Send \/ (\E n \in 1..MaxChunk : Write(n) \/ Read(n)) \/ WritePending \/ ReadPending \/ CloseWriter \/ ReaderEos
Spec == Init /\ [][Next]_vars

(* C15: complete, unmodified, in order; end-of-stream after the last message *)
Inv_Prefix == IsPrefix(delivered, [i \in 1..nsent |-> i])
Inv_Eos == eos => (delivered = [i \in 1..Len(MsgLens) |-> i] /\ rbuf = <<>>)
Inv_NoGarbage == \A i \in DOMAIN delivered : delivered[i] = i

(* ------------------------------------------------------------------ (ii) deadlines travel as remaining time *)
Max0(x) == IF x > 0 THEN x ELSE 0
Rebase(D, te, td) == td + Max0(D - te)          \* serialize at te: D - te (saturating); deserialize at td: td + that
T == 0..4
ASSUME RebaseLaw ==
  \A D \in T, te \in T, td \in T :
    te <= td => LET Dp == Rebase(D, te, td) IN
                IF D >= te THEN (D <= Dp /\ Dp <= D + (td - te)) ELSE Dp = td
(* a chain of hops never outlives the original deadline by more than the accumulated transit *)
ASSUME ChainLaw ==
  \A D \in T, d1 \in 0..2, d2 \in 0..2, d3 \in 0..2 :
    LET h1 == Rebase(D, 0, d1) h2 == Rebase(h1, d1, d1 + d2) h3 == Rebase(h2, d1 + d2, d1 + d2 + d3)
    IN h3 <= D + d1 + d2 + d3 /\ h3 >= D

(* ------------------------------------------------------------------ (iii) the error-kind table *)
Kinds == 0..17                                  \* the 18 portable kinds; anything else is written as 16 (Other)
EncJson(k) == k
(* bincode's default options write integers as varints; the unfixed table serialises an untyped   *)
(* (i32) literal, i.e. zig-zag, and reads the bytes back as u32                                    *)
EncBincode(k) == IF FixF2 THEN k ELSE 2 * k
Dec(v) == IF v \in Kinds THEN v ELSE 16
ASSUME KindsJson == \A k \in Kinds : Dec(EncJson(k)) = k
KindsBincodeOK == \A k \in Kinds : Dec(EncBincode(k)) = k
ASSUME FixF2 => KindsBincodeOK
=============================================================================
