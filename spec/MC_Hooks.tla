------------------------------ MODULE MC_Hooks ------------------------------
EXTENDS Hooks, Json
ExportJson == PrintT("SCHED " \o ToJson([expr |-> e, log |-> R.log, res |-> R.res]))
=============================================================================
