#!/usr/bin/env python3
"""Code -> mechanism conformance: replays a recorded harness trace through the operators of the mechanism
specification (Trace_ClientMech / Trace_ServerMech) and reports the first difference per scenario.

  mech.py client <trace.ndjson> [workdir]     (stand-alone use; check.py calls conform())

The trace is split by scenario configuration because MaxInFlight/Buf/SinkMode/Cap (Limit/RespBuf/...) are
constants of the specification; one TLC run per configuration, in parallel."""
import json
import os
import re
import sys
import threading

sys.path.insert(0, os.path.dirname(os.path.abspath(__file__)))
import common as C

MECH_RE = re.compile(r'<<\s*"MECH",\s*(\d+),\s*(\d+),\s*"([^"]+)",\s*(.*?)>>\s*\n', re.S)


def client_group(reset):
    return (reset.get("maxInFlight", 1), reset.get("buf", 1), reset.get("mode", "always"), reset.get("cap", 1))


def client_constants(key):
    mif, buf, mode, cap = key
    return dict(Callers="<-MechCallers", MaxInFlight=mif, Buf=buf, Deadlines="{}", MaxTime=0, PeerBudget=0,
                SinkMode='"%s"' % mode, Cap=cap, FaultOps="{}", FaultKs="{}", AllowEof=False, AllowHandleDrop=False,
                AtomicPolls=True, FixF9=True, Mutant='"none"', ExportSched=False)


def server_group(reset):
    return (reset.get("limit", -1), reset.get("respBuf", 1), reset.get("mode", "always"), reset.get("cap", 1))


def server_constants(key):
    limit, rb, mode, cap = key
    return dict(Ids="<-MechIds", MaxInc=24, Limit=limit if limit >= 0 else "<-NoLimit", RespBuf=rb, Deadlines="{}", MaxTime=0,
                CancelBudget=0, SinkMode='"%s"' % mode, Cap=cap, FaultOps="{}", AllowEof=False, AllowAppDrop=False,
                AllowStreamDrop=False, FreshIdsOnly=False, AtomicPolls=True, ExportSched=False)


def keys_group(reset):
    return (reset.get("n", 1),)


def keys_constants(key):
    return dict(Keys="<-MechKeys", Limit=key[0], MaxArrivals=80, AtomicPolls=True, FixF1=True, ExportSched=False)


FAMILIES = {
    "keys": dict(module="Trace_KeysMech", group=keys_group, constants=keys_constants),
    "client": dict(module="Trace_ClientMech", group=client_group, constants=client_constants),
    "server": dict(module="Trace_ServerMech", group=server_group, constants=server_constants),
}


def conform(family, trace, wd, max_parallel=8, timeout=1200):
    """-> dict(scenarios, conforming, diverged=[{scn, line, what, detail}], groups)"""
    F = FAMILIES[family]
    groups = {}
    cur = None
    with open(trace) as f:
        for line in f:
            if '"ev":"Reset"' in line:
                e = json.loads(line)
                cur = groups.setdefault(F["group"](e), [])
            if cur is not None:
                cur.append(line)
    results = {}
    sem = threading.Semaphore(max_parallel)

    def work(i, key, lines):
        with sem:
            fn = os.path.join(wd, "mech-%s-%d.ndjson" % (family, i))
            with open(fn, "w") as f:
                f.writelines(lines)
            cfg = os.path.join(wd, "mech-%s-%d.cfg" % (family, i))
            C.write_cfg(cfg, "MSpec", F["constants"](key), ("MDone",))
            results[key] = C.run_tlc(F["module"], cfg, wd, workers=1, timeout=timeout, env={"TRACE": fn},
                                     heap="3g", dfs=True)

    ths = [threading.Thread(target=work, args=(i, k, v)) for i, (k, v) in enumerate(sorted(groups.items(), key=str))]
    for t in ths:
        t.start()
    for t in ths:
        t.join()
    total = good = 0
    diverged = []
    for key, r in results.items():
        m = re.search(r'<<"MECHDONE", (\d+), (\d+)>>', r.out)
        if not m:
            C.log(r.out[-2500:])
            raise C.ToolError("mechanism conformance run did not finish (group %s)" % (key,))
        total += int(m.group(1))
        good += int(m.group(2))
        for mm in MECH_RE.finditer(r.out):
            diverged.append(dict(group=list(key), scn=int(mm.group(1)), line=int(mm.group(2)), what=mm.group(3),
                                 detail=" ".join(mm.group(4).split())[:200]))
    return dict(scenarios=total, conforming=good, diverged=diverged, groups=len(groups))


if __name__ == "__main__":
    fam, trace = sys.argv[1:3]
    wd = sys.argv[3] if len(sys.argv) > 3 else C.workdir("mech")
    r = conform(fam, trace, wd)
    kinds = {}
    for d in r["diverged"]:
        kinds.setdefault(d["what"], []).append(d)
    print("scenarios %d conforming %d groups %d" % (r["scenarios"], r["conforming"], r["groups"]))
    for k, v in sorted(kinds.items(), key=lambda kv: -len(kv[1])):
        print("  %-60s %5d  e.g. scn %s line %s %s" % (k, len(v), v[0]["scn"], v[0]["line"], v[0]["detail"]))
