#!/usr/bin/env python3
"""seeded_save.py <ID> <property> '<needs>' '<detected by>' : keep a confirmed seeded change under /verif/seeded/<ID>/"""
import json, os, shutil, sys, glob
sid, prop, needs, detected = sys.argv[1:5]
wt = sys.argv[5] if len(sys.argv) > 5 else "/tmp/wt-%s" % sid
d = "/verif/seeded/%s" % sid
os.makedirs(d, exist_ok=True)
shutil.copy(os.path.join(wt, "patch.diff"), os.path.join(d, "patch.diff"))
demos = glob.glob(os.path.join(wt, "tarpc/tests/seeded*_*.rs")) + glob.glob(os.path.join(wt, "plugins/tests/seeded*_*.rs"))
for f in demos:
    shutil.copy(f, d)
confirm = open("/tmp/confirm-%s.txt" % sid).read() if os.path.exists("/tmp/confirm-%s.txt" % sid) else ""
meta = dict(id=sid, property=prop, needs_to_manifest=needs,
            demonstration=[os.path.basename(f) for f in demos],
            confirmed=dict(how="tools/seeded_confirm.sh in the sub-agent's scratch worktree: demonstration with the change (must fail), "
                               "with the change stashed (must pass), repository suite with the change (only the always-failing ui test and the demonstration fail)",
                           output=confirm),
            checks=dict(how="tools/seeded_eval.sh: git -C /repo apply patch.diff; ./check <property> quick; git -C /repo checkout -- .",
                        result=detected))
json.dump(meta, open(os.path.join(d, "meta.json"), "w"), indent=1)
print("saved", d)
