#!/bin/bash
# seeded_eval3.sh <patch> <PROP> [<PROP>...]: to be started with `vp run --with-repo -- tools/seeded_eval3.sh ...`:
# applies the patch to the run's private snapshot of the repository and runs the quick checks from the run's private
# snapshot of /verif, so neither /repo, /verif's evidence nor concurrent edits of the specifications interfere.
PATCH=$1; shift
[ -n "$VP_RUN_REPO" ] || { echo "needs vp run --with-repo"; exit 2; }
( cd "$VP_RUN_REPO" && patch -p1 -s < "$PATCH" ) || { echo "patch does not apply"; exit 2; }
export VERIF_REPO=$VP_RUN_REPO VERIF_SCRATCH=$PWD/.scratch
mkdir -p $VERIF_SCRATCH
for P in "$@"; do
  ./check $P quick > .eval-$P.txt 2>&1; rc=$?
  echo "EVAL $(basename $(dirname $PATCH)) $P exit=$rc $(grep -E '^\[C.*quick' .eval-$P.txt | tail -1)"
  grep -E "violated in" .eval-$P.txt | awk '{print $2}' | sort | uniq -c | head -4
  grep -E "^MECH-DRIFT|tool error" .eval-$P.txt | head -2
done
