#!/bin/bash
# seeded_eval.sh <patch> <PROP> [<PROP>...]: apply a seeded change to /repo, run the quick checks, undo.
PATCH=$1; shift
cd /repo && git status --short | grep -q . && { echo "/repo not clean"; exit 2; }
git -C /repo apply "$PATCH" || { echo "patch does not apply"; exit 2; }
for P in "$@"; do
  mkdir -p /verif/.work/selftest-scratch
  cd /verif && VERIF_SCRATCH=/verif/.work/selftest-scratch ./check $P quick > /tmp/eval-$P.txt 2>&1; rc=$?
  nv=$(grep -c '^VIOLATION' /tmp/eval-$P.txt)
  echo "$P exit=$rc violations_printed=$nv $(grep -E '^\[C.*quick' /tmp/eval-$P.txt | tail -1)"
  grep -E "violated in" /tmp/eval-$P.txt | awk '{print $2}' | sort | uniq -c | head -5
done
git -C /repo checkout -- .
