#!/bin/bash
# seeded_batch.sh <listfile>: each line "<patch> <PROP> [<PROP>...]" (or "- <PROP>..." for the unchanged tree); start with
# `vp run --with-repo -- tools/seeded_batch.sh <listfile>`.  Applies each patch to the run's private repository snapshot,
# runs the quick checks in the run's private /verif snapshot and scratch area, and reverts the patch.
LIST=$1
[ -n "$VP_RUN_REPO" ] || { echo "needs vp run --with-repo"; exit 2; }
export VERIF_REPO=$VP_RUN_REPO VERIF_SCRATCH=$PWD/.scratch
mkdir -p $VERIF_SCRATCH
while read -r PATCH PROPS; do
  [ -z "$PATCH" ] && continue
  if [ "$PATCH" != "-" ]; then
    ( cd "$VP_RUN_REPO" && patch -p1 -s < "$PATCH" ) || { echo "EVAL $PATCH: patch does not apply"; continue; }
    NAME=$(basename $(dirname $PATCH))
  else NAME=unchanged; fi
  for P in $PROPS; do
    ./check $P quick > .eval-$NAME-$P.txt 2>&1; rc=$?
    echo "EVAL $NAME $P exit=$rc $(grep -E '^\[C.*quick' .eval-$NAME-$P.txt | tail -1)"
    grep -E "violated in" .eval-$NAME-$P.txt | awk '{print $2}' | sort | uniq -c | head -3
    grep -E "tool error" .eval-$NAME-$P.txt | head -2
  done
  [ "$PATCH" != "-" ] && ( cd "$VP_RUN_REPO" && patch -R -p1 -s < "$PATCH" )
done < "$LIST"
