"""Shared plumbing for the checks: TLC invocation, harness build/run, trace validation,
known findings, replay files, evidence."""
import hashlib
import json
import os
import re
import shutil
import subprocess
import sys
import threading
import time

ROOT = os.path.dirname(os.path.dirname(os.path.abspath(__file__)))
SPEC = os.path.join(ROOT, "spec")
HARNESS = os.path.join(ROOT, "harness")
# Development aids (never set by the registered commands): VERIF_SCRATCH=<dir> moves the work directory, the evidence
# files, the replay files and the harness build output under <dir>, so that an experiment (a seeded change, a run
# against a copy of the repository) neither disturbs nor overwrites what a concurrent or later real run produces.
_SCRATCH = os.environ.get("VERIF_SCRATCH")
WORK = os.path.join(_SCRATCH or ROOT, ".work")
EVID = os.path.join(_SCRATCH or ROOT, "evidence")
REPLAYS = os.path.join(_SCRATCH or ROOT, "replays")
HTARGET = os.path.join(_SCRATCH, "harness-target") if _SCRATCH else os.path.join(HARNESS, "target")
VH = os.path.join(HTARGET, "debug", "vh")
KNOWN = os.path.join(ROOT, "KNOWN_FINDINGS.txt")

TLC_JAR = "/opt/veriftools/tla/tla2tools.jar"


class ToolError(Exception):
    pass


def log(*a):
    print(*a, file=sys.stderr, flush=True)


def workdir(name):
    d = os.path.join(WORK, name)
    shutil.rmtree(d, ignore_errors=True)
    os.makedirs(d, exist_ok=True)
    return d


def repo_override():
    """Development aid: VERIF_REPO=<dir> builds against a copy of the repository (cargo `paths` override) so that a
    long background run is not disturbed by patches applied to /repo meanwhile.  Registered commands never set it:
    they build from /repo's working tree."""
    r = os.environ.get("VERIF_REPO")
    if not r:
        return []
    return ["--config", 'paths=["%s/tarpc","%s/plugins"]' % (r, r)]


def build_harness():
    """Rebuilds the harness (and tarpc with --cfg tarpc_verif) from /repo's working tree."""
    t0 = time.time()
    env = dict(os.environ, CARGO_NET_OFFLINE="true")
    p = subprocess.run(["cargo", "build", "--offline"] + repo_override() + (["--target-dir", HTARGET] if _SCRATCH else []),
                       cwd=HARNESS, env=env,
                       stdout=subprocess.PIPE, stderr=subprocess.STDOUT, text=True)
    if p.returncode != 0:
        log(p.stdout[-4000:])
        raise ToolError("harness build failed")
    return time.time() - t0


def write_cfg(path, spec, constants, invariants=(), properties=(), constraint=None, view=None,
              deadlock=False, postcondition=None):
    lines = ["SPECIFICATION %s" % spec]
    if constants:
        lines.append("CONSTANTS")
        for k, v in constants.items():
            if isinstance(v, str) and v.startswith("<-"):
                lines.append("  %s <- %s" % (k, v[2:].strip()))
            else:
                lines.append("  %s = %s" % (k, tla_val(v)))
    if invariants:
        lines.append("INVARIANTS " + " ".join(invariants))
    if properties:
        lines.append("PROPERTIES " + " ".join(properties))
    if constraint:
        lines.append("CONSTRAINT " + constraint)
    if view:
        lines.append("VIEW " + view)
    if postcondition:
        lines.append("POSTCONDITION " + postcondition)
    lines.append("CHECK_DEADLOCK %s" % ("TRUE" if deadlock else "FALSE"))
    with open(path, "w") as f:
        f.write("\n".join(lines) + "\n")


def tla_val(v):
    if isinstance(v, bool):
        return "TRUE" if v else "FALSE"
    if isinstance(v, int):
        return str(v)
    if isinstance(v, str):
        return v  # raw TLA+ text (sets, model values, quoted strings supplied by caller)
    if isinstance(v, (set, frozenset, list, tuple)):
        return "{" + ", ".join(tla_val(x) for x in sorted(v, key=str)) + "}"
    raise ValueError(v)


_META_SEQ = 0
_META_LOCK = threading.Lock()


class TlcResult:
    def __init__(self):
        self.ok = False
        self.violated = None
        self.generated = 0
        self.distinct = 0
        self.depth = 0
        self.out = ""
        self.wall = 0.0
        self.timeout = False
        self.coverage = {}
        self.error = None


def run_tlc(module, cfg, wd, workers=8, timeout=1800, simulate=None, depth=None, env=None,
            extra=(), heap="8g", coverage=False, dfs=False, seed=None):
    """Runs TLC on spec/<module>.tla with the given cfg file (path).  Returns TlcResult."""
    global _META_SEQ
    with _META_LOCK:
        _META_SEQ += 1
        seq = _META_SEQ
    meta = os.path.join(wd, "meta-%s-%d-%d" % (module, os.getpid(), seq))
    cmd = ["timeout", str(timeout), "java", "-XX:+UseParallelGC", "-Xmx" + heap, "-Xss1g"]
    if dfs:
        cmd.append("-Dtlc2.tool.queue.IStateQueue=StateDeque")
    cmd += ["-cp", TLC_JAR + ":/opt/veriftools/tla/CommunityModules-deps.jar", "tlc2.TLC",
            "-workers", str(workers), "-metadir", meta, "-cleanup", "-noGenerateSpecTE",
            "-config", cfg]
    if coverage:
        cmd += ["-coverage", "1"]
    if simulate:
        cmd += ["-simulate", "num=%d" % simulate]
        if depth:
            cmd += ["-depth", str(depth)]
        if seed is not None:
            cmd += ["-seed", str(seed)]
    cmd += list(extra)
    cmd.append(os.path.join(SPEC, module + ".tla"))
    e = dict(os.environ)
    if env:
        e.update(env)
    t0 = time.time()
    p = subprocess.run(cmd, cwd=SPEC, env=e, stdout=subprocess.PIPE, stderr=subprocess.STDOUT,
                       text=True)
    r = TlcResult()
    r.wall = time.time() - t0
    r.out = p.stdout
    shutil.rmtree(meta, ignore_errors=True)
    if p.returncode == 124:
        r.timeout = True
    m = re.search(r"(\d+) states generated, (\d+) distinct states found", r.out)
    if m:
        r.generated, r.distinct = int(m.group(1)), int(m.group(2))
    m = re.search(r"depth of the complete state graph search is (\d+)", r.out)
    if m:
        r.depth = int(m.group(1))
    m = re.search(r"Invariant (\S+) is violated", r.out)
    if m:
        r.violated = m.group(1)
    m = re.search(r"Temporal properties were violated", r.out)
    if m:
        r.violated = r.violated or "temporal"
    if "Model checking completed. No error has been found." in r.out or (
            simulate and p.returncode in (0,) and "Error:" not in r.out):
        r.ok = True
    if not r.ok and r.violated is None and not r.timeout:
        m = re.search(r"Error: (.*)", r.out)
        r.error = m.group(1) if m else "tlc exit %d" % p.returncode
    if coverage:
        # "<Action line .. of module M>: distinct:generated"
        for m in re.finditer(r"<(\w+) line \d+, col \d+ to line \d+, col \d+ of module (\w+)>: (\d+):(\d+)", r.out):
            r.coverage[m.group(1)] = (int(m.group(3)), int(m.group(4)))
    return r


def run_apalache(spec_rel, cinit, init, inv, length, wd, timeout=900):
    """One apalache-mc check run; returns (outcome, wall) with outcome 'NoError' | 'Error' | 'Tool'."""
    t0 = time.time()
    out_dir = os.path.join(wd, "apalache")
    cmd = ["timeout", str(timeout), "apalache-mc", "check", "--cinit=" + cinit, "--init=" + init, "--inv=" + inv,
           "--length=%d" % length, "--out-dir=" + out_dir, os.path.basename(spec_rel)]
    p = subprocess.run(cmd, cwd=os.path.join(ROOT, os.path.dirname(spec_rel)), stdout=subprocess.PIPE,
                       stderr=subprocess.STDOUT, text=True)
    m = re.search(r"The outcome is: (\w+)", p.stdout)
    outcome = m.group(1) if m else "Tool"
    if outcome not in ("NoError", "Error"):
        log(p.stdout[-1500:])
        outcome = "Tool"
    return outcome, time.time() - t0


def tlc_ver(module):
    p = subprocess.run(["tla-sany", os.path.join(SPEC, module + ".tla")], cwd=SPEC,
                       stdout=subprocess.PIPE, stderr=subprocess.STDOUT, text=True)
    return p.returncode == 0 and "error" not in p.stdout.lower(), p.stdout


def extract_scheds(out, prefix="SCHED "):
    """Lines printed by PrintT("SCHED " \\o ToJson(..)) -> list of python objects."""
    res = []
    for line in out.splitlines():
        line = line.strip()
        if line.startswith('"' + prefix):
            # TLC prints the string value with quotes and escaped inner quotes
            body = line[1:-1]
            body = body[len(prefix):]
            body = body.replace('\\"', '"').replace("\\\\", "\\")
            try:
                res.append(json.loads(body))
            except Exception:
                pass
    return res


def run_harness(family, wd, tag, sched_file=None, random=0, seed=0, opts=None, timeout=1800):
    trace = os.path.join(wd, "%s-%s.ndjson" % (family, tag))
    report = os.path.join(wd, "%s-%s.report.json" % (family, tag))
    cmd = ["timeout", str(timeout), VH, family, "--trace", trace, "--report", report,
           "--seed", str(seed)]
    if sched_file:
        cmd += ["--sched", sched_file]
    if random:
        cmd += ["--random", str(random)]
    for k, v in (opts or {}).items():
        cmd += ["--opt", "%s=%s" % (k, v)]
    p = subprocess.run(cmd, stdout=subprocess.PIPE, stderr=subprocess.STDOUT, text=True)
    if p.returncode != 0:
        log(p.stdout[-3000:])
        raise ToolError("harness run failed (%s, exit %d)" % (family, p.returncode))
    with open(report) as f:
        rep = json.load(f)
    return trace, rep


def split_trace(trace, parts, wd):
    """Splits an ndjson trace into <= parts files at scenario boundaries (Reset events)."""
    with open(trace) as f:
        lines = f.readlines()
    if parts <= 1 or len(lines) < 4000:
        return [trace], len(lines)
    starts = [i for i, l in enumerate(lines) if '"ev":"Reset"' in l]
    if not starts:
        return [trace], len(lines)
    per = max(1, len(lines) // parts)
    files = []
    cur_start = 0
    nxt = per
    idx = 0
    for s in starts[1:] + [len(lines)]:
        if s >= nxt or s == len(lines):
            fn = "%s.part%d" % (trace, idx)
            with open(fn, "w") as f:
                f.writelines(lines[cur_start:s])
            files.append(fn)
            idx += 1
            cur_start = s
            nxt = s + per
    return files, len(lines)


# TLC pretty-prints long tuples over several lines: match across whitespace/newlines
REPORT_RE = re.compile(r'<<\s*"REPORT",\s*"([^"]+)",\s*(\d+),\s*(\d+)(?:,\s*(\{[^}]*\}))?\s*>>', re.S)


def validate_trace(trace_module, cfg_path, trace, wd, parts=8, timeout=1800):
    """Runs the TLC trace driver over the trace (split for parallelism).
    Returns (violations, events) where violations = list of dict(inv, scn, line, sigs)."""
    files, nlines = split_trace(trace, parts, wd)
    results = [None] * len(files)

    def work(i, fn):
        results[i] = run_tlc(trace_module, cfg_path, wd, workers=1, timeout=timeout,
                             env={"TRACE": fn}, heap="3g", dfs=True)

    ths = [threading.Thread(target=work, args=(i, fn)) for i, fn in enumerate(files)]
    for t in ths:
        t.start()
    for t in ths:
        t.join()
    viols = {}
    accepted = 0
    for fn, r in zip(files, results):
        m = re.search(r'<<"ACCEPTED", (\d+)>>', r.out)
        if not m:
            log(r.out[-3000:])
            raise ToolError("trace validation did not reach the end of %s" % fn)
        accepted += int(m.group(1))
        found = REPORT_RE.findall(r.out)
        if len(found) != r.out.count('"REPORT"'):
            log(r.out[-2000:])
            raise ToolError("could not parse every REPORT line of the trace validation of %s" % fn)
        for m in REPORT_RE.finditer(r.out):
            inv, scn, line = m.group(1), int(m.group(2)), int(m.group(3))
            sigs = re.findall(r'"([^"]+)"', m.group(4) or "")
            key = (inv, scn)
            # a report without signatures means some recorded reason has none: the scenario can then never
            # count as a known finding, whatever other reports of the same scenario carry
            if key not in viols:
                viols[key] = dict(inv=inv, scn=scn, line=line, sigs=sigs, file=fn, unsigned=not sigs)
            else:
                viols[key]["sigs"] = sorted(set(viols[key]["sigs"]) | set(sigs))
                viols[key]["unsigned"] = viols[key]["unsigned"] or not sigs
    if accepted != nlines:
        raise ToolError("trace validation consumed %d of %d events" % (accepted, nlines))
    return list(viols.values()), nlines


def load_known():
    """KNOWN_FINDINGS.txt -> {property: {sig: text}} for open findings."""
    known = {}
    if not os.path.exists(KNOWN):
        return known
    for line in open(KNOWN):
        line = line.strip()
        m = re.match(r"KNOWN-FINDING: property=(\S+) sig=(\S+)\s*(.*)", line)
        if m:
            known.setdefault(m.group(1), {})[m.group(2)] = m.group(3)
    return known


def sched_hash(steps):
    return hashlib.sha1(json.dumps(steps, sort_keys=True).encode()).hexdigest()[:12]


def write_replay(prop, family, entry, inv, seed, extra=None):
    os.makedirs(REPLAYS, exist_ok=True)
    h = sched_hash([entry.get("cfg"), entry.get("steps"), inv])
    path = os.path.join(REPLAYS, "%s-%s.json" % (prop, h))
    cfg = dict(entry.get("cfg") or {})
    cfg.pop("random", None)
    obj = dict(property=prop, family=family, invariant=inv, seed=seed,
               id=entry.get("id"), cfg=cfg, steps=entry.get("steps"))
    if extra:
        obj.update(extra)
    with open(path, "w") as f:
        json.dump(obj, f, indent=1)
    return path


def write_evidence(prop, tier, seed, level, coverage, assumptions, wall, violations, extra=None):
    os.makedirs(EVID, exist_ok=True)
    ev = dict(property_id=prop, tier=tier, seed=seed, level=level, coverage=coverage,
              assumptions=assumptions, wall_s=round(wall, 2), violations=violations)
    if extra:
        ev.update(extra)
    with open(os.path.join(EVID, prop + ".json"), "w") as f:
        json.dump(ev, f, indent=1)
