"""Per-property configuration of the checks (see check.py)."""


# ------------------------------------------------------------------ C13 (ChannelsPerKey)
def keys_convert(sched):
    steps, expect = [], []
    for s in sched:
        if s["a"] == "Poll":
            steps.append({"a": "Poll"})
            e = {"res": s["res"]}
            if "ch" in s:
                e["ch"] = s["ch"]
            expect.append(e)
        else:
            steps.append(s)
            expect.append({})
    return steps, expect


def keys_relevant(e):
    st = e.get("steps", [])
    closes = [i for i, s in enumerate(st) if s.get("a") == "Close"]
    return bool(closes) and any(s.get("a") == "Arrive" for s in st[closes[0]:])


KEYS_CONSTS = dict(Keys="{1, 2}", Limit=1, MaxArrivals=4, AtomicPolls=True, FixF1=True, ExportSched=False)

PROPS = {
    "C13": dict(
        level="model_checking",
        verdict="Verdict_C13",
        rule=("schedules of Arrive/Close/Poll/End steps: every terminal behaviour of ChannelsPerKey.tla "
              "(exhaustive, atomic polls) plus seeded random schedules; non-trivial = contains a Close "
              "followed by a later Arrive (capacity being re-offered); distinct by (cfg, step sequence)"),
        assumptions=[
            "harness is single-threaded: a Close never lands inside a poll of the limiter (TLC explores that "
            "interleaving in the model with AtomicPolls=FALSE; it is not replayed)",
            "channel identity = arrival number; keymaker invoked once per listener item in order",
        ],
        models=[
            dict(module="MC_Keys", name="atomic", constants=dict(KEYS_CONSTS),
                 quick=dict(MaxArrivals=5), thorough=dict(Keys="{1, 2, 3}", MaxArrivals=6),
                 invariants=["TypeOK", "LiveAgree", "TrackerInv", "NoLostWake", "Inv_C13a", "Inv_C13b", "Inv_C13c"]),
            dict(module="MC_Keys", name="limit2-interleaved", constants=dict(KEYS_CONSTS, Limit=2, AtomicPolls=False),
                 quick=dict(MaxArrivals=4), thorough=dict(MaxArrivals=6),
                 invariants=["TypeOK", "LiveAgree", "NoLostWake", "Inv_C13a", "Inv_C13b"]),
        ],
        families=[
            dict(family="keys", trace_module="Trace_Keys",
                 random_quick=3000, random_thorough=40000,
                 exports=[
                     dict(module="MC_Keys", name="n1", constants=dict(KEYS_CONSTS, ExportSched=True),
                          quick=dict(MaxArrivals=4), thorough=dict(MaxArrivals=5),
                          convert=keys_convert, cfg_of=lambda c: {"n": c["Limit"]}),
                     dict(module="MC_Keys", name="n2", constants=dict(KEYS_CONSTS, Limit=2, ExportSched=True),
                          quick=dict(MaxArrivals=4), thorough=dict(MaxArrivals=5),
                          convert=keys_convert, cfg_of=lambda c: {"n": c["Limit"]}),
                 ]),
        ],
        relevant=keys_relevant,
    ),
}

# ------------------------------------------------------------------ manifest texts
MANIFEST_TEXT = {
    "C13": dict(
        text=("ChannelsPerKey.tla (one action per step of MaxChannelsPerKey::poll_next, explicit Arc/Weak counts, "
              "notification queue and wakers) is model-checked exhaustively by TLC for 2-3 keys, n in {1,2}, up to 6 arrivals, "
              "with polls atomic and with Close/Arrive interleaved inside a poll; every terminal behaviour is exported as a "
              "schedule and replayed against the real limiter with the predicted poll results compared step by step; all "
              "recorded traces (replayed + seeded random) are validated by TLC against the observer invariants Inv_C13a/b/c."),
        design_ref="DESIGN.md section 6, C13",
        note=("Exhaustive only within the model constants; the code is judged on the explored schedules. Trusted: TLC, the "
              "harness (listener, keymaker bookkeeping), ObsKeys' reading of the statement."),
        technique="TLA+ model checking (TLC) + schedule replay + TLC trace validation",
    ),
}

NOT_APPLICABLE = {}
