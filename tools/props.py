"""Per-property configuration of the checks (see check.py)."""


# ------------------------------------------------------------------ C13 (ChannelsPerKey)
def keys_convert(sched):
    steps, expect = [], []
    for s in sched:
        if s["a"] == "Poll":
            steps.append({"a": "Poll"})
            e = {"res": s["res"]}
            if "ch" in s:
                e["ch"] = s["ch"]
            expect.append(e)
        else:
            steps.append(s)
            expect.append({})
    return steps, expect


def keys_relevant(e):
    st = e.get("steps", [])
    closes = [i for i, s in enumerate(st) if s.get("a") == "Close"]
    return bool(closes) and any(s.get("a") == "Arrive" for s in st[closes[0]:])


KEYS_CONSTS = dict(Keys="{1, 2}", Limit=1, MaxArrivals=4, AtomicPolls=True, FixF1=True, ExportSched=False)

PROPS = {
    "C13": dict(
        level="model_checking",
        verdict="Verdict_C13",
        rule=("schedules of Arrive/Close/Poll/End steps: every terminal behaviour of ChannelsPerKey.tla "
              "(exhaustive, atomic polls) plus seeded random schedules; non-trivial = contains a Close "
              "followed by a later Arrive (capacity being re-offered); distinct by (cfg, step sequence)"),
        assumptions=[
            "harness is single-threaded: a Close never lands inside a poll of the limiter (TLC explores that "
            "interleaving in the model with AtomicPolls=FALSE; it is not replayed)",
            "channel identity = arrival number; keymaker invoked once per listener item in order",
        ],
        models=[
            dict(module="MC_Keys", name="atomic", constants=dict(KEYS_CONSTS),
                 quick=dict(MaxArrivals=5), thorough=dict(Keys="{1, 2, 3}", MaxArrivals=6),
                 invariants=["TypeOK", "LiveAgree", "TrackerInv", "NoLostWake", "Inv_C13a", "Inv_C13b", "Inv_C13c"]),
            dict(module="MC_Keys", name="limit2-interleaved", constants=dict(KEYS_CONSTS, Limit=2, AtomicPolls=False),
                 quick=dict(MaxArrivals=4), thorough=dict(MaxArrivals=6),
                 invariants=["TypeOK", "LiveAgree", "NoLostWake", "Inv_C13a", "Inv_C13b"]),
        ],
        apalache=[
            dict(what="base case", spec="spec/apa/KeysInd.tla", cinit="ConstInit", init="Init", inv="IndInv", length=0, expect="NoError"),
            dict(what="inductive step", spec="spec/apa/KeysInd.tla", cinit="ConstInit", init="IndInit", inv="IndInv", length=1, expect="NoError"),
            dict(what="invariant implies the limit", spec="spec/apa/KeysInd.tla", cinit="ConstInit", init="IndInit", inv="Safety", length=0, expect="NoError"),
            dict(what="non-vacuity probe", spec="spec/apa/KeysInd.tla", cinit="ConstInit", init="IndInit", inv="Probe1", length=0, expect="Error"),
            dict(what="pre-F1 code is not inductive", spec="spec/apa/KeysInd.tla", cinit="ConstInitBroken", init="IndInit", inv="IndInv", length=1, expect="Error"),
        ],
        families=[
            dict(family="keys", trace_module="Trace_Keys",
                 random_quick=3000, random_thorough=40000,
                 exports=[
                     dict(module="MC_Keys", name="n1", constants=dict(KEYS_CONSTS, ExportSched=True),
                          quick=dict(MaxArrivals=4), thorough=dict(MaxArrivals=5),
                          convert=keys_convert, cfg_of=lambda c: {"n": c["Limit"]}),
                     dict(module="MC_Keys", name="n2", constants=dict(KEYS_CONSTS, Limit=2, ExportSched=True),
                          quick=dict(MaxArrivals=4), thorough=dict(MaxArrivals=5),
                          convert=keys_convert, cfg_of=lambda c: {"n": c["Limit"]}),
                 ]),
        ],
        relevant=keys_relevant,
    ),
}


# ------------------------------------------------------------------ client (Client.tla / ObsClient.tla)
def tname(t):
    return "d" if t == 0 else "c%d" % t


def client_convert(sched):
    steps, expect = [], []
    for s in sched:
        a = s["a"]
        if a == "Poll":
            steps.append({"a": "Poll", "t": tname(s["t"])})
            e = {"res": s["res"]}
            if s["t"] == 0:
                if "infl" in s:
                    e["infl"] = s["infl"]
                if "woken" in s:
                    e["woken"] = [tname(t) for t in s["woken"]]
            expect.append(e)
        elif a == "Call":
            steps.append({"a": "Call", "c": s["c"], "dl": s["dl"], "h": 0, "tr": 100 + s["c"], "sampled": s["c"] % 2 == 0})
            expect.append({})
        else:
            steps.append(s)
            expect.append({})
    return steps, expect


def client_cfg_of(c):
    return {"maxInFlight": c["MaxInFlight"], "buf": c["Buf"], "mode": c["SinkMode"].strip('"'),
            "cap": c["Cap"], "open": True, "credits": 0}


CLIENT_BASE = dict(Callers="{1, 2}", MaxInFlight=1, Buf=1, Deadlines="{2}", MaxTime=2, PeerBudget=1,
                   SinkMode='"always"', Cap=1, FaultOps="{}", FaultKs="{1}", AllowEof=False, AllowHandleDrop=False,
                   AtomicPolls=True, FixF9=True, Mutant='"none"', ExportSched=False)


def cmodel(name, inv, quick=None, thorough=None, **over):
    return dict(module="MC_Client", name=name, constants=dict(CLIENT_BASE, **over),
                quick=quick or {}, thorough=thorough or {},
                invariants=["TypeOK", "NoSpin"] + inv)


def cexport(name, quick=None, thorough=None, cap_quick=2500, cap_thorough=30000, sim_quick=2000, sim_thorough=30000, **over):
    return dict(module="MC_Client", name=name, constants=dict(CLIENT_BASE, ExportSched=True, **over),
                quick=quick or {}, thorough=thorough or {}, convert=client_convert, cfg_of=client_cfg_of,
                cap_quick=cap_quick, cap_thorough=cap_thorough, timeout=900,
                simulate_quick=sim_quick, simulate_thorough=sim_thorough)


def has(e, *acts):
    return any(s.get("a") in acts for s in e.get("steps", []))


def count(e, act):
    return sum(1 for s in e.get("steps", []) if s.get("a") == act)


CLIENT_ASSUME = [
    "single-threaded harness: polls are atomic except at the H1 yield points inside the call guard's drop "
    "(the model additionally explores AtomicPolls=FALSE in the thorough tier, not replayed)",
    "a call future owns a clone of the Channel handle (call() borrows &self)",
    "virtual clock: tokio paused clock, tarpc's Instant::now() routed to it by hook H4",
    "transport = instrumented VTransport (always / coupled / independent sink modes), peer scripted by the schedule",
]


def client_family(exports, rq, rt, opts=None):
    return dict(family="client", trace_module="Trace_Client", random_quick=rq, random_thorough=rt,
                exports=exports, opts=opts or {})


CLIENT_PROPS = {
    "C01": dict(
        level="model_checking", verdict="Verdict_C01",
        rule=("client schedules (Call/Poll/Peer/Drop*/Tick/...): TLC terminal behaviours of Client.tla with an adversarial peer "
              "+ seeded random online schedules; non-trivial = at least 2 calls and at least 2 peer responses; distinct by (cfg, steps)"),
        assumptions=CLIENT_ASSUME,
        models=[cmodel("peer-adversarial", ["M_C01"], MaxInFlight=2, PeerBudget=2,
                       thorough=dict(PeerBudget=3, Deadlines="{1, 2}"))],
        families=[client_family([cexport("peer", MaxInFlight=2, PeerBudget=2)], 1500, 30000, {"faults": 0})],
        relevant=lambda e: count(e, "Call") >= 2 and count(e, "Peer") >= 2,
    ),
    "C02": dict(
        level="model_checking", verdict="Verdict_C02",
        rule=("client schedules with capacity 1, slow/blocked sinks, peer close, handle drop and faults, each finished by quiesce; "
              "non-trivial = a call that had to wait (second call at capacity, blocked sink, or close/fault race); distinct by (cfg, steps)"),
        assumptions=CLIENT_ASSUME + ["'nothing left that could wake the system' = harness quiesce: settle, grant the sink, run the clock to the last armed deadline"],
        models=[cmodel("capacity", ["M_C02"], AllowEof=True, AllowHandleDrop=True,
                       thorough=dict(Deadlines="{1, 2}", PeerBudget=2)),
                cmodel("slow-sink", ["M_C02"], SinkMode='"coupled"', thorough=dict(PeerBudget=2)),
                cmodel("credit-sink", ["M_C02"], SinkMode='"independent"', thorough=dict(PeerBudget=2)),
                # two slots, three calls, a deadline that passes while its call is being abandoned: capacity freed by a cancellation
                cmodel("capacity-2", ["M_C02"], Callers="{1, 2, 3}", MaxInFlight=2, Buf=2, Deadlines="{1, 9}", MaxTime=1, PeerBudget=0)],
        families=[client_family([cexport("capacity", AllowEof=True, AllowHandleDrop=True),
                                 cexport("slow", SinkMode='"coupled"', cap_quick=800),
                                 cexport("credit", SinkMode='"independent"', cap_quick=800),
                                 cexport("capacity-2", Callers="{1, 2, 3}", MaxInFlight=2, Buf=2, Deadlines="{1, 9}", MaxTime=1, PeerBudget=0,
                                         cap_quick=1500)], 1500, 30000)],
        relevant=lambda e: count(e, "Call") >= 2 or has(e, "SinkBlock", "SinkCredit", "PeerEof", "Arm", "HandleDrop"),
    ),
    "C03": dict(
        level="model_checking", verdict="Verdict_C03",
        rule=("client schedules with abandonment at every stage (before enqueue, queued, transmitted, reply in transit/buffered), "
              "the guard's three drop steps interleaved with other tasks through hook H1; non-trivial = contains an abandon; distinct by (cfg, steps)"),
        assumptions=CLIENT_ASSUME,
        models=[cmodel("abandon-matrix", ["M_C03"], Deadlines="{9}", PeerBudget=2, thorough=dict(Deadlines="{1, 9}", PeerBudget=3)),
                cmodel("abandon-write-fault", ["M_C03"], Deadlines="{9}", FaultOps='{"send"}'),
                cmodel("abandon-slow-sink", ["M_C03"], Deadlines="{9}", SinkMode='"coupled"', thorough=dict(PeerBudget=2))],
        families=[client_family([cexport("abandon", Deadlines="{9}", PeerBudget=2, MaxTime=1),
                                 cexport("abandon-slow", Deadlines="{9}", SinkMode='"coupled"', cap_quick=1500)], 2000, 40000, {"faults": 0}),
                  dict(client_family([cexport("abandon-write-fault", Deadlines="{9}", FaultOps='{"send"}', cap_quick=1500)], 1500, 30000), tag="faults")],
        relevant=lambda e: has(e, "Drop", "DropEnter"),
    ),
    "C05": dict(
        level="model_checking", verdict="Verdict_C05",
        rule=("client schedules with deadlines already past / zero / 1 / 2 ms and far away, queueing delay, reply-vs-expiry orders and clock steps; "
              "non-trivial = a call with a near deadline and at least one clock tick; distinct by (cfg, steps)"),
        assumptions=CLIENT_ASSUME + ["timer granularity 1 ms: 'once its deadline passes' is evaluated at settle points with now >= deadline + 1 ms"],
        models=[cmodel("deadlines", ["M_C05"], Deadlines="{0, 1, 2}", MaxTime=3,
                       thorough=dict(PeerBudget=2)),
                cmodel("deadlines-slow-sink", ["M_C05"], Deadlines="{1, 2}", MaxTime=3, SinkMode='"coupled"', MaxInFlight=2, Cap=2, quick=dict(PeerBudget=0))],
        families=[client_family([cexport("deadlines", Deadlines="{0, 1, 2}", MaxTime=3),
                                 cexport("deadlines-slow", Deadlines="{1, 2}", MaxTime=3, SinkMode='"coupled"', MaxInFlight=2, Cap=2, cap_quick=2500, quick=dict(PeerBudget=0))], 2000, 40000, {"faults": 0})],
        relevant=lambda e: has(e, "Tick") and any(s.get("a") == "Call" and s.get("dl", 10000) < 1000 for s in e.get("steps", [])),
    ),
    "C09": dict(
        level="model_checking", verdict="Verdict_C09",
        rule=("client schedules with one fault armed at the next use of each of poll_next/poll_ready/start_send/poll_flush/poll_close "
              "(model) or the k-th use (random), and peer EOF, with calls in every stage; non-trivial = a fault fired or EOF was read; distinct by (cfg, steps)"),
        assumptions=CLIENT_ASSUME + ["this check covers the client half of C09; the server half is checked by the server family"],
        models=[cmodel("faults", ["M_C09"], FaultOps='{"next", "ready", "send", "flush", "close"}', AllowEof=True, AllowHandleDrop=True)],
        families=[client_family([cexport("faults", FaultOps='{"next", "ready", "send", "flush", "close"}', AllowEof=True, AllowHandleDrop=True)], 2500, 40000)],
        relevant=lambda e: has(e, "Arm", "PeerEof"),
    ),
    "C10": dict(
        level="model_checking", verdict="Verdict_C10",
        rule=("client schedules where the last handle is dropped / the peer closes at every point with queued, in-flight, abandoned and completed calls; "
              "non-trivial = HandleDrop or PeerEof present; distinct by (cfg, steps)"),
        assumptions=CLIENT_ASSUME + ["this check covers the client half of C10; the server half is checked by the server family"],
        models=[cmodel("shutdown", ["M_C10"], AllowEof=True, AllowHandleDrop=True, thorough=dict(PeerBudget=2, Deadlines="{1, 2}")),
                cmodel("shutdown-slow-sink", ["M_C10"], AllowHandleDrop=True, SinkMode='"coupled"')],
        families=[client_family([cexport("shutdown", AllowEof=True, AllowHandleDrop=True),
                                 cexport("shutdown-slow", AllowHandleDrop=True, SinkMode='"coupled"', cap_quick=800)], 2000, 40000, {"faults": 0})],
        relevant=lambda e: has(e, "HandleDrop", "PeerEof"),
    ),
    "C11": dict(
        level="model_checking", verdict="Verdict_C11",
        rule=("client schedules; in-flight and timer counts (hook H3) compared at every dispatch poll end with the requests outstanding on the wire; "
              "long random runs reuse table slots; non-trivial = at least 2 calls; distinct by (cfg, steps)"),
        assumptions=CLIENT_ASSUME + ["this check covers the client half of C11; the server half is checked by the server family"],
        models=[cmodel("reclaim", ["M_C11"], AllowHandleDrop=True, thorough=dict(PeerBudget=2, MaxInFlight=2))],
        families=[client_family([cexport("reclaim", AllowHandleDrop=True)], 2500, 40000, {"calls": 8})],
        relevant=lambda e: count(e, "Call") >= 2,
    ),
    "C14": dict(
        level="model_checking", verdict="Verdict_C14",
        rule=("client schedules over coupled (socket-like) and independent (bounded-queue-like) sinks with capacity 1-2, readiness/flush granted late, faults; "
              "every Sink/Stream call of the dispatch is logged and judged; non-trivial = the sink was not ready at least once; distinct by (cfg, steps)"),
        assumptions=CLIENT_ASSUME + ["this check covers the client dispatch; Requests/MaxRequests are checked by the server family",
                                     "a poll that performs more than 400 transport operations is treated as non-returning (Spin)"],
        models=[cmodel("coupled", ["M_C14"], SinkMode='"coupled"', AllowHandleDrop=True, thorough=dict(PeerBudget=2)),
                cmodel("independent", ["M_C14"], SinkMode='"independent"', AllowHandleDrop=True, thorough=dict(PeerBudget=2)),
                # a readiness / flush failure at the first or the second use after arming (the second poll_ready of ensure_writeable)
                cmodel("coupled-faults", ["M_C14", "M_C09"], SinkMode='"coupled"', FaultOps='{"ready", "flush"}', FaultKs="{1, 2}",
                       PeerBudget=0, thorough=dict(PeerBudget=1))],
        families=[client_family([cexport("coupled", SinkMode='"coupled"', AllowHandleDrop=True, cap_quick=1000),
                                 cexport("independent", SinkMode='"independent"', AllowHandleDrop=True, cap_quick=1000),
                                 cexport("coupled-faults", SinkMode='"coupled"', FaultOps='{"ready", "flush"}', FaultKs="{1, 2}",
                                         PeerBudget=0, cap_quick=1500)], 2000, 40000)],
        relevant=lambda e: e.get("cfg", {}).get("mode") in ("coupled", "independent"),
    ),
    "C18": dict(
        level="model_checking", verdict="Verdict_C18",
        rule=("client schedules with distinct trace ids and both sampling values per call, cancellation at every point; trace fields of every Request "
              "and Cancel item compared; non-trivial = a Cancel was possible (an abandon) or 2+ concurrent calls; distinct by (cfg, steps)"),
        assumptions=CLIENT_ASSUME + ["this check covers the client hop (caller -> wire, request -> cancel); server hop and chains are not yet bound"],
        models=[cmodel("trace", ["M_C18"], MaxInFlight=2)],
        families=[client_family([cexport("trace", MaxInFlight=2)], 2500, 30000, {"faults": 0, "far": 1})],
        relevant=lambda e: has(e, "Drop", "DropEnter") or count(e, "Call") >= 2,
    ),
}
PROPS.update(CLIENT_PROPS)


# ------------------------------------------------------------------ server (Server.tla / ObsServer.tla)
def sname(t):
    return "s" if t == 0 else "h%d" % t


def server_convert(sched):
    steps, expect = [], []
    for s in sched:
        a = s["a"]
        if a == "Poll":
            steps.append({"a": "Poll", "t": sname(s["t"])})
            e = {"res": s["res"]}
            if s["t"] == 0:
                if "infl" in s:
                    e["infl"] = s["infl"]
                if "woken" in s:
                    e["woken"] = [sname(t) for t in s["woken"]]
            expect.append(e)
        else:
            steps.append(s)
            expect.append({})
    return steps, expect


def server_cfg_of(c):
    lim = c["Limit"]
    return {"limit": -1 if isinstance(lim, str) else lim, "respBuf": c["RespBuf"], "mode": c["SinkMode"].strip('"'),
            "cap": c["Cap"], "open": True, "credits": 0}


SERVER_BASE = dict(Ids="{1, 2}", MaxInc=2, Limit="<-NoLimit", RespBuf=1, Deadlines="{2}", MaxTime=2, CancelBudget=1,
                   SinkMode='"always"', Cap=1, FaultOps="{}", AllowEof=True, AllowAppDrop=False, AllowStreamDrop=False,
                   FreshIdsOnly=True, AtomicPolls=True, ExportSched=False)


def smodel(name, inv, quick=None, thorough=None, **over):
    return dict(module="MC_Server", name=name, constants=dict(SERVER_BASE, **over),
                quick=quick or {}, thorough=thorough or {}, invariants=["TypeOK", "NoSpin", "TrackAgree"] + inv)


def sexport(name, quick=None, thorough=None, cap_quick=2500, cap_thorough=30000, sim_quick=2000, sim_thorough=30000, **over):
    return dict(module="MC_Server", name=name, constants=dict(SERVER_BASE, ExportSched=True, **over),
                quick=quick or {}, thorough=thorough or {}, convert=server_convert, cfg_of=server_cfg_of,
                cap_quick=cap_quick, cap_thorough=cap_thorough, timeout=900,
                simulate_quick=sim_quick, simulate_thorough=sim_thorough)


SERVER_ASSUME = [
    "single-threaded harness: channel and handler polls are atomic (AtomicPolls=FALSE is model-checked in the thorough tier only)",
    "handlers are scripted service futures run through InFlightRequest::execute; incarnations are numbered in yield order and answer with body h<n>",
    "virtual clock (hook H4); transport = instrumented VTransport; peer scripted by the schedule",
    "'once the deadline passes' / 'promptly' are evaluated at channel polls that ran to Pending with now >= deadline + 1 ms",
]


def server_family(exports, rq, rt, opts=None):
    return dict(family="server", trace_module="Trace_Server", random_quick=rq, random_thorough=rt,
                exports=exports, opts=opts or {})


SERVER_PROPS = {
    "C04": dict(
        level="model_checking", verdict="Verdict_C04",
        rule=("server schedules (Req/Cancel/Poll/Complete/Tick/sink steps) with fresh ids: TLC terminal + simulated behaviours of Server.tla "
              "and seeded random online schedules, with and without a request limit and with unready sink periods; "
              "non-trivial = contains a Cancel; distinct by (cfg, steps)"),
        assumptions=SERVER_ASSUME + ["the cross-hop cascade (chains of depth 1-3) is not bound to the code by this check yet; see DESIGN.md"],
        models=[smodel("cancel-positions", ["M_C04"], CancelBudget=2, thorough=dict(MaxInc=3)),
                smodel("cancel-limit-slow-sink", ["M_C04"], Limit=1, SinkMode='"coupled"', thorough=dict(MaxInc=3)),
                smodel("cancel-backlog", ["M_C04"], MaxInc=3, SinkMode='"coupled"', CancelBudget=1, AllowEof=False, Deadlines="{9}", MaxTime=1)],
        families=[server_family([sexport("cancel", CancelBudget=2), sexport("cancel-limit", Limit=1, SinkMode='"coupled"', cap_quick=1500)],
                                2500, 40000, {"fresh": 1, "faults": 0}),
                  # response backlog: unready sink, full response buffer, handlers parked on the response send, then cancels
                  dict(server_family([sexport("cancel-backlog", MaxInc=3, SinkMode='"coupled"', CancelBudget=1, AllowEof=False, cap_quick=1500, sim_quick=3000)],
                                     2000, 30000, {"fresh": 1, "faults": 0, "mode": "coupled", "limit": "-1", "reqs": 6, "appdrop": 0, "backlog": 1}), tag="backlog")],
        relevant=lambda e: has(e, "Cancel"),
    ),
    "C06": dict(
        level="model_checking", verdict="Verdict_C06",
        rule=("server schedules with deadlines past/0/1/2 ms and far, several concurrent requests, completion-vs-expiry orders, every clock stepping, "
              "with/without limit, unready sink periods; non-trivial = a near deadline and a clock tick; distinct by (cfg, steps)"),
        assumptions=SERVER_ASSUME,
        models=[smodel("deadlines", ["M_C06", "M_C11"], Deadlines="{0, 1, 2}", MaxTime=3, CancelBudget=0, thorough=dict(MaxInc=3)),
                smodel("deadlines-limit-slow-sink", ["M_C06", "M_C11"], Deadlines="{1, 2}", MaxTime=3, CancelBudget=0, Limit=1,
                       SinkMode='"coupled"', thorough=dict(MaxInc=3)),
                smodel("deadlines-duplicates", ["M_C06"], Ids="{1}", MaxInc=3, Deadlines="{1, 2, 3}", MaxTime=3, CancelBudget=0, FreshIdsOnly=False)],
        families=[server_family([sexport("deadlines", Deadlines="{0, 1, 2}", MaxTime=3, CancelBudget=0),
                                 sexport("deadlines-limit", Deadlines="{1, 2}", MaxTime=3, CancelBudget=0, Limit=1, SinkMode='"coupled"', cap_quick=1500)],
                                2500, 40000, {"fresh": 1, "faults": 0}),
                  # duplicates of requests that are still in flight, with other deadlines (they must be ignored, timers included)
                  dict(server_family([sexport("deadlines-dup", Ids="{1}", MaxInc=3, Deadlines="{1, 2, 3}", MaxTime=3, CancelBudget=0, FreshIdsOnly=False, cap_quick=1500)],
                                     1500, 20000, {"fresh": 0, "faults": 0, "appdrop": 0, "dups": 1}), tag="dups")],
        relevant=lambda e: has(e, "Tick") and any(s.get("a") == "Req" and s.get("dl", 10000) < 1000 for s in e.get("steps", [])),
    ),
    "C08": dict(
        level="model_checking", verdict="Verdict_C08",
        rule=("server schedules in which the peer sends fresh, duplicate-while-in-flight and reused ids, cancellations and EOF, all handler completion orders, "
              "response buffer 1-2; non-trivial = an id is sent at least twice or a Cancel is present; distinct by (cfg, steps)"),
        assumptions=SERVER_ASSUME + ["id reuse is explored without application-side handler drops (their combination only re-exposes finding F8b, pinned in C11)"],
        models=[smodel("request-sequences", ["M_C08"], Ids="{1}", MaxInc=3, FreshIdsOnly=False, thorough=dict(Ids="{1, 2}")),
                smodel("request-sequences-limit", ["M_C08"], Ids="{1}", MaxInc=3, FreshIdsOnly=False, Limit=1)],
        families=[server_family([sexport("reuse", Ids="{1}", MaxInc=3, FreshIdsOnly=False),
                                 sexport("reuse-limit", Ids="{1}", MaxInc=3, FreshIdsOnly=False, Limit=1, cap_quick=1500)],
                                2500, 40000, {"fresh": 0, "faults": 0, "appdrop": 0})],
        relevant=lambda e: has(e, "Cancel") or len([s for s in e.get("steps", []) if s.get("a") == "Req"]) > len({s.get("id") for s in e.get("steps", []) if s.get("a") == "Req"}),
    ),
    "C12": dict(
        level="model_checking", verdict="Verdict_C12",
        rule=("server schedules with limit L in {0,1,2}: arrival patterns of requests and cancellations, completion/response-write orders, temporarily unready sink; "
              "non-trivial = at least L+1 requests; distinct by (cfg, steps)"),
        assumptions=SERVER_ASSUME + ["'in flight when it was read' = other tracked requests at the instant the transport handed the request over (DESIGN.md Appendix C.4)"],
        models=[smodel("throttle-L1", ["M_C12"], Limit=1, MaxInc=3, thorough=dict(CancelBudget=2)),
                smodel("throttle-L0", ["M_C12"], Limit=0, MaxInc=2),
                smodel("throttle-L1-slow-sink", ["M_C12"], Limit=1, MaxInc=2, SinkMode='"coupled"', thorough=dict(MaxInc=3))],
        families=[server_family([sexport("throttle-L1", Limit=1, MaxInc=3), sexport("throttle-L0", Limit=0, cap_quick=500),
                                 sexport("throttle-slow", Limit=1, SinkMode='"coupled"', cap_quick=1500)],
                                2500, 40000, {"fresh": 1, "faults": 0, "limit": "some"})],
        relevant=lambda e: e.get("cfg", {}).get("limit", -1) >= 0 and count(e, "Req") > e.get("cfg", {}).get("limit", 0),
    ),
}
PROPS.update(SERVER_PROPS)

# server halves of the two-sided properties
PROPS["C09"]["models"].append(smodel("server-faults", ["M_C09"], FaultOps='{"next", "ready", "send", "flush"}', AllowStreamDrop=True, CancelBudget=0))
PROPS["C09"]["families"].append(server_family([sexport("faults", FaultOps='{"next", "ready", "send", "flush"}', AllowStreamDrop=True, CancelBudget=0)], 2000, 30000, {"fresh": 1}))
PROPS["C10"]["models"].append(smodel("server-shutdown", ["M_C10"], CancelBudget=1, thorough=dict(MaxInc=3)))
PROPS["C10"]["families"].append(server_family([sexport("shutdown", CancelBudget=1)], 2000, 30000, {"fresh": 1, "faults": 0}))
PROPS["C11"]["models"].append(smodel("server-reclaim", ["M_C11"], AllowAppDrop=True, thorough=dict(MaxInc=3)))
PROPS["C11"]["families"].append(server_family([sexport("reclaim", AllowAppDrop=True)], 2500, 30000, {"fresh": 1, "reqs": 8}))
# duplicates of in-flight ids must leave neither an entry nor a timer behind
PROPS["C11"]["families"].append(dict(server_family([], 2000, 20000, {"fresh": 0, "faults": 0, "appdrop": 0, "dups": 1}), tag="dups"))
PROPS["C14"]["models"].append(smodel("server-coupled", ["M_C14"], SinkMode='"coupled"', Limit=1, CancelBudget=0))
PROPS["C14"]["models"].append(smodel("server-independent", ["M_C14"], SinkMode='"independent"', Limit=1, CancelBudget=0))
PROPS["C14"]["families"].append(server_family([sexport("coupled", SinkMode='"coupled"', Limit=1, CancelBudget=0, cap_quick=1000),
                                               sexport("independent", SinkMode='"independent"', Limit=1, CancelBudget=0, cap_quick=1000)], 2000, 30000, {"fresh": 1}))
for _p in ("C09", "C10", "C11", "C14"):
    PROPS[_p]["assumptions"] = [a for a in PROPS[_p]["assumptions"] if "half" not in a and "Requests/MaxRequests are checked" not in a] + SERVER_ASSUME[:2]
_rel_client = {p: PROPS[p]["relevant"] for p in ("C09", "C10", "C11", "C14")}
PROPS["C09"]["relevant"] = lambda e: has(e, "Arm", "PeerEof", "DropStream")
PROPS["C10"]["relevant"] = lambda e: has(e, "HandleDrop", "PeerEof")
PROPS["C11"]["relevant"] = lambda e: count(e, "Call") >= 2 or count(e, "Req") >= 2
PROPS["C14"]["relevant"] = lambda e: e.get("cfg", {}).get("mode") in ("coupled", "independent")


# ------------------------------------------------------------------ hooks (Hooks.tla)
def hooks_to_sched(g, consts):
    e = g["expr"]
    kinds = []
    x = e
    while x.get("k") != "base":
        kinds.append(x["k"])
        x = x["s"]
    return dict(cfg={"expr": e}, steps=[], tags=tuple(kinds))


def hooks_relevant(e):
    x = e.get("cfg", {}).get("expr", {})
    return x.get("k", "base") != "base"


PROPS["C19"] = dict(
    level="model_checking", verdict="Verdict_C19",
    rule=("hook chains = expressions over before / after / before-and-after / before-list wrappers: every expression up to depth 3 (lists up to 2) "
          "enumerated by TLC with every hook behaviour (fails?, sets context?, rewrites result?), sampled round-robin over nesting shapes in the quick tier, "
          "plus seeded random chains up to depth 4 with lists up to 3; non-trivial = at least one wrapper; distinct by expression"),
    assumptions=["the request context is abstracted to its trace id; hooks are one dynamic hook type whose behaviour is data",
                 "chains deeper than 4 wrappers or lists longer than 3 are not built (the wrapper code is straight-line and non-recursive)"],
    models=[dict(module="MC_Hooks", name="laws", constants=dict(MaxDepth=3, MaxList=2), quick={}, thorough=dict(MaxDepth=3, MaxList=3),
                 invariants=["Laws"], coverage=False)],
    families=[dict(family="hooks", trace_module="Trace_Hooks", random_quick=3000, random_thorough=60000,
                   exports=[dict(module="MC_Hooks", name="chains", constants=dict(MaxDepth=3, MaxList=2), quick={}, thorough={},
                                 to_sched=hooks_to_sched, view="", cap_quick=4000, cap_thorough=200000, timeout=900)])],
    relevant=hooks_relevant,
)


# ------------------------------------------------------------------ stubs (Stubs.tla)
def stubs_fixed(tier):
    import itertools
    out = []
    L = 3 if tier == "quick" else 4
    k = 0
    for n in range(1, L + 1):
        for script in itertools.product(["ok", "err"], repeat=n):
            for pol in itertools.product([(False, False), (True, False), (False, True), (True, True)], repeat=n - 1):
                policy = [list(p) for p in pol] + [[False, False]]
                # the error an "err" entry stands for: every RpcError variant an inner stub can produce without a transport
                for ek in (("deadline", "shutdown", "server") if "err" in script else ("deadline",)):
                    k += 1
                    # the caller's deadline is either ahead or long elapsed: the stub's promise does not depend on it
                    out.append(dict(id="enum:retry:%d" % k, cfg={"kind": "retry", "n": 1, "script": list(script), "policy": policy,
                                                                 "errkind": ek, "elapsed": k % 2 == 0}, steps=[]))
    for n in range(1, 5):
        for calls in (1, n, n + 1, 2 * n + 1):
            out.append(dict(id="enum:rri:%d:%d" % (n, calls), cfg={"kind": "rri", "n": n, "calls": calls}, steps=[]))
        for th in (2, 3):
            for picks in (1, 2, 3):
                for rep in range(3 if tier == "quick" else 20):
                    out.append(dict(id="enum:rr:%d:%d:%d:%d" % (n, th, picks, rep), cfg={"kind": "rr", "n": n, "threads": th, "picks": picks}, steps=[]))
    return out


PROPS["C20"] = dict(
    level="model_checking", verdict="Verdict_C20",
    rule=("stub scenarios: every retry (result script x policy table) up to length 3 (4 thorough) enumerated, round robin with 1-4 backends driven sequentially "
          "(exact cursor check) and by 2-3 real threads x 1-3 picks (linearisation search), consistent hash with table hashers incl. 64-bit hash values, "
          "plus seeded random scenarios; non-trivial = more than one attempt / more than one thread or call; distinct by cfg"),
    assumptions=["real threads are scheduled by the OS: the interleavings actually exercised are not controlled (TLC explores all of them on the model)",
                 "the hasher is table-driven; backend = hash mod n is recomputed independently by the harness in 128-bit arithmetic"],
    models=[dict(module="Stubs", name="stubs", constants=dict(Threads="{1, 2}", Backends="{1, 2, 3}", PicksPerThread=2, SplitCursor=False,
                                                             Reqs="{1, 2}", HashMax=3, MaxAttempts=3, Results='{"ok", "err"}'),
                 quick={}, thorough=dict(Threads="{1, 2, 3}", PicksPerThread=2, HashMax=4),
                 invariants=["Inv_Balance", "Inv_Hash", "Inv_Retry"], coverage=False)],
    families=[dict(family="stubs", trace_module="Trace_Stubs", random_quick=2000, random_thorough=40000, fixed=stubs_fixed, exports=[]),
              # the same under a formatting subscriber at TRACE level: every log statement's arguments are evaluated
              dict(family="stubs", trace_module="Trace_Stubs", random_quick=1000, random_thorough=10000, fixed=stubs_fixed, exports=[],
                   opts={"sub": "fmt"}, tag="fmt")],
    relevant=lambda e: (e.get("cfg", {}).get("kind") == "retry" and len(e["cfg"].get("script", [])) > 1)
    or (e.get("cfg", {}).get("kind") in ("rr", "rri", "ch")),
)


# ------------------------------------------------------------------ wire (Wire.tla): C15, C16, C07
LENS = {"LensA": [1, 2, 0], "LensB": [2, 1], "LensC": [0, 3, 1], "LensD": [1, 1, 1, 2]}
C2S_BY_LEN = {0: "cancel-notrace", 1: "req", 2: "req-zero", 3: "req-large"}
S2C_BY_LEN = {0: "resp-idmax", 1: "resp", 2: "resp-unicode", 3: "resp-large"}


def wire_to_sched(g, consts):
    import hashlib
    steps = g["steps"]
    ws = [s["n"] for s in steps if s["a"] == "w"]
    rs = [s["n"] for s in steps if s["a"] == "r"]
    fs = [s["n"] for s in steps if s["a"] == "f"]
    h = int(hashlib.sha1(repr(steps).encode()).hexdigest(), 16)
    codec = ["json", "bincode"][h % 2]
    d = ["c2s", "s2c"][(h // 2) % 2]
    lens = LENS[consts["MsgLens"][2:].strip()]
    table = C2S_BY_LEN if d == "c2s" else S2C_BY_LEN
    cfg = {"kind": "rt", "codec": codec, "dir": d, "msgs": [table[l] for l in lens], "rscript": rs, "wscript": ws,
           "transit": [0, 0, 3][(h // 4) % 3], "close": ["drop", "close", "closekeep"][(h // 12) % 3]}
    if consts.get("IoBuf"):
        # a buffering byte stream: the flush has to be driven to completion by the writer; "keep" leaves the writer alive
        cfg.update(iobuf=True, fscript=fs, close=["drop", "close", "keep", "closekeep"][(h // 12) % 4])
    return dict(cfg=cfg, steps=[], tags=(codec, d, cfg["close"]) if consts.get("IoBuf") else (codec, d))


def wire_fixed(kinds):
    def f(tier):
        out = []
        if "kinds" in kinds:
            out += [dict(id="fixed:kinds:%s" % c, cfg={"kind": "kinds", "codec": c}, steps=[]) for c in ("json", "bincode")]
        if "omit" in kinds:
            out.append(dict(id="fixed:omit", cfg={"kind": "omit", "codec": "json"}, steps=[]))
        if "mem" in kinds:
            for codec in ("mem-unbounded", "mem-bounded"):
                for d in ("c2s", "s2c"):
                    for close in ("drop", "close", "keep") + (("closekeep",) if codec == "mem-bounded" else ()):
                        msgs = (["req", "req-idmax", "cancel", "req-unicode", "req-large", "req-past", "cancel-notrace", "req-zero", "cancel-zero", "req-notrace"] if d == "c2s"
                                else ["resp", "err:NotFound", "err:OutOfMemory", "resp-large", "resp-idmax"])
                        out.append(dict(id="fixed:%s:%s:%s" % (codec, d, close),
                                        cfg={"kind": "rt", "codec": codec, "dir": d, "msgs": msgs, "rscript": [], "wscript": [],
                                             "transit": 0, "close": close, "cap": 1}, steps=[]))
        if "live" in kinds:
            items = ["req", "req-idmax", "req-past", "dup", "req-twice", "req-twice-cancel", "req-dup-past", "cancel-unknown", "cancel-idmax", "dl-3y", "dl-10y", "dl-100y",
                     "dl-10000y", "dl-u64max", "dl-i64max", "dl-2p36ms", "garbage", "truncated", "hugelen"]
            for codec in ("json", "bincode"):
                for it in items:
                    out.append(dict(id="fixed:live:%s:%s" % (codec, it), cfg={"kind": "live", "codec": codec, "items": [it]}, steps=[]))
                out.append(dict(id="fixed:live:%s:flood" % codec, cfg={"kind": "live", "codec": codec, "items": ["req"] + ["dup"] * 30}, steps=[]))
            for c in ("1m", "3y", "10y", "100y", "10000y", "2p36ms"):
                out.append(dict(id="fixed:clientdl:%s" % c, cfg={"kind": "clientdl", "dl_class": c}, steps=[]))
            # scale: a run of unsolicited responses longer than any stack is deep, in a child process
            for n in ((2000000,) if tier == "quick" else (2000000, 5000, 20000000)):
                out.append(dict(id="fixed:flood:%d" % n, cfg={"kind": "flood", "n": n}, steps=[]))
            # old connections: the timer queue's range is measured from its creation when no timer ever fired
            for age in (70, 300):
                for codec in ("json", "bincode"):
                    for it in ("dl-3y", "dl-100y", "dl-u64max", "req"):
                        out.append(dict(id="fixed:live-aged:%d:%s:%s" % (age, codec, it),
                                        cfg={"kind": "live", "codec": codec, "items": [it], "age_days": age}, steps=[]))
                for c in ("3y", "100y"):
                    out.append(dict(id="fixed:clientdl-aged:%d:%s" % (age, c), cfg={"kind": "clientdl", "dl_class": c, "age_days": age}, steps=[]))
        if "transit" in kinds:
            for codec in ("json", "bincode"):
                for tr in (0, 1, 7, 5000):
                    out.append(dict(id="fixed:transit:%s:%d" % (codec, tr),
                                    cfg={"kind": "rt", "codec": codec, "dir": "c2s", "msgs": ["req", "req-past", "req-now", "req"],
                                         "rscript": [3, 0, 100], "wscript": [5, 0], "transit": tr, "close": "drop"}, steps=[]))
        return out
    return f


def wire_export(name, lens, **over):
    return dict(module="MC_Wire", name=name,
                constants=dict(dict(MsgLens="<-" + lens, MaxChunk=3, PendingBudget=2, ExportSched=True, FixF2=True, IoBuf=False), **over),
                quick={}, thorough={}, to_sched=wire_to_sched, cap_quick=1500, cap_thorough=20000, timeout=600,
                simulate_quick=1500, simulate_thorough=20000)


def wire_model(name, lens, **over):
    return dict(module="MC_Wire", name=name, constants=dict(dict(MsgLens="<-" + lens, MaxChunk=3, PendingBudget=2, ExportSched=False, FixF2=True, IoBuf=False), **over),
                quick={}, thorough=dict(PendingBudget=3), invariants=["Inv_Prefix", "Inv_Eos", "Inv_NoGarbage", "Inv_Flushed", "KindsBincodeOK"], coverage=False)


def wire_family(kinds_fixed, kinds_random, rq, rt, exports, sub=None):
    opts = {"kinds": kinds_random}
    if sub:
        opts["sub"] = sub
    return dict(family="wire", trace_module="Trace_Wire", random_quick=rq, random_thorough=rt, fixed=wire_fixed(kinds_fixed),
                exports=exports, opts=opts, tag="wire-" + (sub or "none"))


WIRE_ASSUME = ["byte stream = in-process pipe with scripted partial reads / partial writes / Pending results; a quarter of the random round trips "
               "go through the shipped socket transports instead (serde_transport::tcp / unix: listen, connect, accept on the loopback "
               "interface / a socket file), where fragmentation is the kernel's",
               "message values are the concretisation of Wire.tla's length classes (ids 0 / 2^32 / 2^64-1, empty / unicode / 70 kB bodies, "
               "all io::ErrorKind variants by name); arbitrary byte-exact fidelity is the serializers' job and is sampled",
               "frames above LengthDelimitedCodec's 8 MiB default are out of scope"]

PROPS["C15"] = dict(
    level="exploration", verdict="Verdict_C15",
    rule=("round trips of message sequences over the serde transport (JSON, bincode) with every chunking of Wire.tla's behaviours (reads/writes of 1-3 bytes "
          "or Pending) and seeded random chunk scripts, over both in-memory channels with drop / close / keep-open endings, the full error-kind table under "
          "both codecs, and hand-built JSON omitting optional fields; non-trivial = at least one message written; distinct by cfg"),
    assumptions=WIRE_ASSUME,
    models=[wire_model("framing-A", "LensA"), wire_model("framing-C", "LensC"), wire_model("framing-iobuf-B", "LensB", IoBuf=True)],
    families=[wire_family({"kinds", "omit", "mem"}, "rt,rt,rt,sock", 1500, 30000,
                          [wire_export("A", "LensA"), wire_export("B", "LensB"), wire_export("C", "LensC"), wire_export("iobuf-B", "LensB", IoBuf=True)])],
    relevant=lambda e: e.get("cfg", {}).get("kind") in ("kinds", "omit") or len(e.get("cfg", {}).get("msgs", [])) > 0,
)
PROPS["C16"] = dict(
    level="exploration", verdict="Verdict_C16",
    rule=("peer-supplied input: seeded random byte strings, mutations and truncations of valid encodings fed to the four framed decoders; boundary-valued "
          "well-typed messages (ids 0/2^64-1, deadlines 3 y / 10 y / 100 y / 10000 y / u64::MAX s / i64::MAX s / just above the timer range, cancels and "
          "duplicates for unknown ids, duplicates of in-flight requests followed by their answer or cancellation, duplicate floods) sent to a live BaseChannel->Requests over the serde transport followed by a probe request that must "
          "be served; caller-chosen extreme deadlines through the client dispatch; each with no subscriber, a formatting subscriber and an OpenTelemetry "
          "layer; distinct by cfg; non-trivial = any"),
    assumptions=WIRE_ASSUME + ["TLA+ contributes the message classes and their sequencing with valid traffic; the decoder's behaviour on specific byte strings is seeded sampling",
                               "one harness process per subscriber configuration (a global subscriber can be installed once)"],
    models=[wire_model("framing-A", "LensA")],
    families=[wire_family({"live", "kinds"}, "garbage,live,clientdl", 1200, 20000, [], sub=None),
              wire_family({"live"}, "live,clientdl", 600, 8000, [], sub="fmt"),
              wire_family({"live"}, "live,clientdl", 600, 8000, [], sub="otel")],
    relevant=lambda e: True,
)
PROPS["C07"] = dict(
    level="exploration", verdict="Verdict_C07",
    rule=("requests with remaining time past / zero / 5 s crossing one hop over JSON and bincode (deadline encoded as remaining time) with transit delays "
          "0 / 1 / 3 / 7 / 5000 ms of virtual time between encode and decode, over the in-memory transports (deadline unchanged), and a JSON request without "
          "deadline (10 s default); chunkings from Wire.tla; non-trivial = a request message present; distinct by cfg"),
    assumptions=WIRE_ASSUME + ["multi-hop chains are covered by the model's ChainLaw (composition of single hops) and by single-hop executions; a real 2-3 hop "
                               "chain through handler contexts is not executed by this check",
                               "virtual clock via hook H4: encode and decode times are exact"],
    models=[wire_model("framing-B", "LensB")],
    families=[wire_family({"omit", "transit", "mem"}, "rt,rt,rt,sock", 1200, 20000, [wire_export("B", "LensB")])],
    relevant=lambda e: e.get("cfg", {}).get("kind") == "omit" or any(m.startswith("req") for m in e.get("cfg", {}).get("msgs", [])),
)




# ------------------------------------------------------------------ bursts: scale the small-scope families cannot reach
def burst_fixed(kinds):
    """Harness-only scenarios with many calls at once (queues, budgets and tables that only overflow at scale)."""
    def f(tier):
        out = []
        big = dict(maxInFlight=512, buf=512, mode="always", cap=1, open=True, credits=0, spin=20000)

        def calls(n, dl):
            return [{"a": "Call", "c": i, "dl": dl, "h": 0, "tr": 100 + i, "sampled": i % 2 == 0} for i in range(1, n + 1)]

        def polls(n):
            return [{"a": "Poll", "t": "c%d" % i} for i in range(1, n + 1)]

        for n in ((40, 70, 150) if tier == "quick" else (33, 40, 65, 70, 130, 150, 300)):
            if "abandon" in kinds:
                # all transmitted, then all abandoned before the dispatch runs again: one Cancel each
                out.append(dict(id="burst:abandon:%d" % n, cfg=big, steps=calls(n, 10000) + polls(n) + [{"a": "Poll", "t": "d"}]
                                + [{"a": "Drop", "c": i} for i in range(1, n + 1)] + [{"a": "Settle"}]))
                # half of them abandoned while still queued, the others after transmission
                out.append(dict(id="burst:abandon-mixed:%d" % n, cfg=big, steps=calls(n, 10000) + polls(n)
                                + [{"a": "Drop", "c": i} for i in range(1, n + 1, 2)] + [{"a": "Poll", "t": "d"}]
                                + [{"a": "Drop", "c": i} for i in range(2, n + 1, 2)] + [{"a": "Settle"}]))
            if "deadline" in kinds:
                # a silent peer: every transmitted call must fail with DeadlineExceeded once the clock passes the deadline
                out.append(dict(id="burst:deadline:%d" % n, cfg=big, steps=calls(n, 5) + polls(n)
                                + [{"a": "Poll", "t": "d"}, {"a": "Tick", "d": 6}, {"a": "Settle"}]))
                out.append(dict(id="burst:deadline-settle:%d" % n, cfg=big, steps=calls(n, 5) + polls(n)
                                + [{"a": "Settle"}, {"a": "Tick", "d": 3}, {"a": "Settle"}, {"a": "Tick", "d": 3}, {"a": "Settle"}]))
            if "reply" in kinds:
                out.append(dict(id="burst:reply:%d" % n, cfg=big, steps=calls(n, 10000) + polls(n) + [{"a": "Poll", "t": "d"}]
                                + [{"a": "Peer", "id": i} for i in range(n - 1, -1, -1)] + [{"a": "Settle"}]))
            if "fault" in kinds:
                # calls still queued when the transport fails: every one of them resolves with a connection error
                out.append(dict(id="burst:fault:%d" % n, cfg=dict(big, mode="coupled", open=False), steps=calls(n, 10000) + polls(n)
                                + [{"a": "Arm", "op": "next", "k": 1}, {"a": "Settle"}]))
        return out
    return f


def burst_family(*kinds):
    return dict(family="client", trace_module="Trace_Client", fixed=burst_fixed(set(kinds)), exports=[], random_quick=0, random_thorough=0,
                tag="burst", opts={})


def clones_fixed(tier):
    """scale in the number of handles: a handle cloned 2^16 (2^17) times over its life, calls through old and new clones"""
    out = []
    cfg = dict(maxInFlight=64, buf=64, mode="always", cap=1, open=True, credits=0, spin=20000)
    for total in ((65536,) if tier == "quick" else (65536, 131072, 70000)):
        steps = [{"a": "Call", "c": 1, "dl": 10000, "h": 0, "tr": 101, "sampled": True}, {"a": "Poll", "t": "c1"}, {"a": "Poll", "t": "d"},
                 {"a": "CloneMany", "h": 0, "n": total - 1}, {"a": "HandleClone", "h": 0},
                 {"a": "Call", "c": 2, "dl": 10000, "h": 1, "tr": 102, "sampled": False}, {"a": "Poll", "t": "c2"}, {"a": "Poll", "t": "d"},
                 {"a": "HandleClone", "h": 1}, {"a": "Call", "c": 3, "dl": 10000, "h": 2, "tr": 103, "sampled": True}, {"a": "Poll", "t": "c3"},
                 {"a": "Poll", "t": "d"}, {"a": "Peer", "id": 0}, {"a": "Settle"}, {"a": "Peer", "id": 1}, {"a": "Peer", "id": 2}, {"a": "Settle"}]
        out.append(dict(id="scale:clones:%d" % total, cfg=cfg, steps=steps))
    return out


PROPS["C01"]["families"].append(dict(family="client", trace_module="Trace_Client", fixed=clones_fixed, exports=[], random_quick=0, random_thorough=0,
                                     tag="clones", opts={}, no_mech=True))
# the same random schedules with a formatting subscriber at TRACE level installed: every log statement's arguments are evaluated
PROPS["C01"]["families"].append(dict(client_family([], 700, 10000, {"faults": 0, "sub": "fmt"}), tag="fmt", no_mech=True))
PROPS["C08"]["families"].append(dict(server_family([], 700, 10000, {"fresh": 0, "faults": 0, "appdrop": 0, "sub": "fmt"}), tag="fmt", no_mech=True))
PROPS["C03"]["families"].append(dict(client_family([], 500, 8000, {"faults": 0, "sub": "fmt"}), tag="fmt", no_mech=True))
PROPS["C05"]["families"].append(dict(client_family([], 500, 8000, {"faults": 0, "sub": "fmt"}), tag="fmt", no_mech=True))
PROPS["C06"]["families"].append(dict(server_family([], 500, 8000, {"fresh": 1, "faults": 0, "sub": "fmt"}), tag="fmt", no_mech=True))
PROPS["C12"]["families"].append(dict(server_family([], 500, 8000, {"fresh": 1, "faults": 0, "limit": "some", "sub": "fmt"}), tag="fmt", no_mech=True))
# deadlines of 12 hours / 2 days with clock steps of 9 and 30 hours (between the minutes everybody tests and the timer queue's range)
PROPS["C05"]["families"].append(dict(client_family([], 600, 8000, {"faults": 0, "hours": 1}), tag="hours", no_mech=True))
PROPS["C06"]["families"].append(dict(server_family([], 600, 8000, {"fresh": 1, "faults": 0, "hours": 1}), tag="hours", no_mech=True))
PROPS["C02"]["families"].append(burst_family("reply", "deadline", "fault"))
# the server's and the handlers' wake-ups: the request stream alone (Inv_C02s: everything pushed is read, a closed peer is
# noticed, at settle points) and real client -> server -> handler chains (nothing pending at quiescence)
PROPS["C02"]["families"].append(server_family([], 1500, 20000, {"fresh": 1}))
PROPS["C03"]["families"].append(burst_family("abandon"))
PROPS["C05"]["families"].append(burst_family("deadline"))
PROPS["C09"]["families"].append(burst_family("fault"))
PROPS["C11"]["families"].append(burst_family("abandon", "reply", "deadline"))


def server_burst_fixed(kinds):
    def f(tier):
        out = []
        big = dict(limit=-1, respBuf=1, mode="always", cap=1, open=True, credits=0, spin=40000, burst=True)

        def reqs(n, dl):
            return [{"a": "Req", "id": i, "dl": dl} for i in range(n)]

        for n in ((40, 100) if tier == "quick" else (33, 40, 65, 100, 130, 250)):
            yield_all = [{"a": "Poll", "t": "s"} for _ in range(n + 1)]
            hp = [{"a": "Poll", "t": "h%d" % i} for i in range(1, n + 1)]
            if "complete" in kinds:
                out.append(dict(id="sburst:complete:%d" % n, cfg=big, steps=reqs(n, 10000) + yield_all + hp
                                + [{"a": "Complete", "h": i} for i in range(1, n + 1)] + [{"a": "Settle"}]))
                out.append(dict(id="sburst:complete-buf:%d" % n, cfg=dict(big, respBuf=2, mode="coupled", cap=2), steps=reqs(n, 10000) + yield_all
                                + [{"a": "Complete", "h": i} for i in range(n, 0, -1)] + [{"a": "Settle"}]))
            if "cancel" in kinds:
                out.append(dict(id="sburst:cancel:%d" % n, cfg=big, steps=reqs(n, 10000) + yield_all + hp
                                + [{"a": "Cancel", "id": i} for i in range(n)] + [{"a": "Settle"}]))
                out.append(dict(id="sburst:appdrop:%d" % n, cfg=big, steps=reqs(n, 10000) + yield_all + hp[: n // 2]
                                + [{"a": "DropHandler", "h": i} for i in range(1, n + 1)] + [{"a": "Settle"}]))
            if "deadline" in kinds:
                out.append(dict(id="sburst:deadline:%d" % n, cfg=big, steps=reqs(n, 5) + yield_all + hp
                                + [{"a": "Tick", "d": 6}, {"a": "Settle"}]))
            if "throttle" in kinds:
                out.append(dict(id="sburst:throttle:%d" % n, cfg=dict(big, limit=2), steps=reqs(n, 10000) + [{"a": "Settle"}]
                                + [{"a": "Complete", "h": 1}, {"a": "Complete", "h": 2}, {"a": "Settle"}]))
        return out
    return f


def server_burst_family(*kinds):
    return dict(family="server", trace_module="Trace_Server", fixed=server_burst_fixed(set(kinds)), exports=[], random_quick=0,
                random_thorough=0, tag="burst", opts={})


PROPS["C04"]["families"].append(server_burst_family("cancel"))
PROPS["C06"]["families"].append(server_burst_family("deadline"))
PROPS["C08"]["families"].append(server_burst_family("complete", "cancel"))
PROPS["C11"]["families"].append(server_burst_family("complete", "cancel", "deadline"))
PROPS["C12"]["families"].append(server_burst_family("throttle"))

# ------------------------------------------------------------------ in-memory transports (Chan.tla): C15 (and panics for C16)
def chan_to_sched(g, consts):
    import hashlib
    h = int(hashlib.sha1(repr(g["steps"]).encode()).hexdigest(), 16)
    cfg = {"bounded": bool(consts["Bounded"]), "cap": consts["Cap"], "dir": ["c2s", "s2c"][h % 2]}
    return dict(cfg=cfg, steps=g["steps"], tags=("bounded" if cfg["bounded"] else "unbounded", cfg["dir"]))


def chan_export(name, bounded, cap):
    return dict(module="MC_Chan", name=name, constants=dict(Msgs=3, Cap=cap, Bounded=bounded, ExportSched=True),
                quick={}, thorough=dict(Msgs=4), to_sched=chan_to_sched, cap_quick=600, cap_thorough=6000, timeout=300,
                simulate_quick=500, simulate_thorough=6000, depth=30)


def chan_model(name, bounded, cap):
    return dict(module="MC_Chan", name=name, constants=dict(Msgs=3, Cap=cap, Bounded=bounded, ExportSched=False),
                quick={}, thorough=dict(Msgs=5), invariants=["Inv_Prefix", "Inv_Eos", "Inv_NothingLost", "Inv_Room"], coverage=False)


def mem_family(rq, rt):
    return dict(family="mem", trace_module="Trace_Mem", random_quick=rq, random_thorough=rt,
                exports=[chan_export("unbounded", False, 1), chan_export("bounded-1", True, 1), chan_export("bounded-2", True, 2)])


PROPS["C15"]["models"] += [chan_model("chan-unbounded", False, 1), chan_model("chan-bounded-1", True, 1), chan_model("chan-bounded-2", True, 2)]
PROPS["C15"]["families"].append(mem_family(800, 15000))
PROPS["C15"]["assumptions"] = PROPS["C15"]["assumptions"] + [
    "in-memory transports are additionally driven step by step (ready/send/flush/close/recv/drop of either endpoint) along every "
    "interleaving Chan.tla allows for 3 messages (4 in the thorough tier), one direction at a time"]

# ------------------------------------------------------------------ glue (Glue.tla): C17
def glue_to_sched(g, consts):
    ms = g["methods"]
    names = ["".join(m["name"]) for m in ms]
    variants = ["".join(m["variant"]) for m in ms]
    if any(n in ("new", "serve") for n in names):
        reason = "reserved"
    elif g.get("attr") in ("both", "twice"):
        reason = "attr-" + g["attr"]
    elif any(m["argty"] in ("ctx", "pattern", "selfarg") for m in ms):
        reason = [m["argty"] for m in ms if m["argty"] in ("ctx", "pattern", "selfarg")][0] + "arg"
    elif len(set(variants)) < len(variants):
        reason = "collision"
    else:
        reason = "ok"
    sig = "+".join(sorted("%d%s%s" % (m["nargs"], m["argty"][0], m["ret"][0]) for m in ms))
    raw = any(m.get("raw") for m in ms)
    gates = "".join(m.get("gate", "none")[1] for m in ms)  # o = none, n = on, f = off, in declaration order
    same_sig = len(ms) == 2 and (ms[0]["nargs"], ms[0]["argty"], ms[0]["ret"]) == (ms[1]["nargs"], ms[1]["argty"], ms[1]["ret"])
    if gates.strip("o"):
        # shapes with a #[cfg]-gated rpc are sampled by gate pattern (and whether the two rpcs could be confused), not by attribute / name class
        tags = ("gated", "acc" if g["accepted"] else "rej", gates if g["accepted"] else "", "samesig" if same_sig and g["accepted"] else "")
    else:
        tags = ("acc" if g["accepted"] else "rej", reason, str(len(ms)), "raw" if raw else "plain", g.get("attr", "none"),
                sig if reason == "ok" and len(ms) == 1 else "")
    sc = dict(cfg={"methods": ms, "accepted": g["accepted"], "attr": g.get("attr", "none")}, steps=[], tags=tags)
    if tags[0] == "gated" and same_sig and g["accepted"]:
        sc["weight"] = 5  # two rpcs that can be confused without a type error, one of them gated
    return sc


def _glue_runner(wd, scheds, seed, tier):
    import glue
    return glue.run_glue(wd, scheds, seed, tier)


PROPS["C17"] = dict(
    level="exploration", verdict="Verdict_C17",
    rule=("service definitions enumerated by Glue.tla (1-2 methods; names a, b, ab, a_b, a__b, _a_b, a_b_, aB, Ab, a1, r#fn, new, serve; 0-2 arguments of equal or "
          "differing types; unit / i32 / String results), sampled round-robin over (accepted?, name, signature) classes; each accepted shape is compiled with "
          "the real macro and every method is called through the generated client with position-distinct argument values and a call-distinct deadline; "
          "each rejected shape is compile-checked; non-trivial = any; distinct by shape"),
    assumptions=["'every definition the macro accepts' is an infinite set of programs; this is the bounded family chosen by the model (no cfg'd methods, "
                 "or method attributes; the macro arguments derive / derive_serde are enumerated)",
                 "compile-must-fail is a build probe (cargo check --keep-going), not TLA+",
                 "for raw identifiers both '<Service>.name' and '<Service>.r#name' are accepted as the reported name"],
    models=[dict(module="MC_Glue", name="shapes", constants=dict(MaxMethods=2), quick={}, thorough={}, invariants=["Law_S2C"], coverage=False)],
    families=[dict(family="glue", trace_module="Trace_Glue", runner=_glue_runner, random_quick=0, random_thorough=0,
                   exports=[dict(module="MC_Glue", name="shapes", constants=dict(MaxMethods=2), quick={}, thorough={}, invariants=("ExportJson",),
                                 to_sched=glue_to_sched, view="", cap_quick=190, cap_thorough=900, timeout=600)])],
    relevant=lambda e: True,
)


# C16 through the generated client: a peer that answers with a response of another rpc's type (two-rpc shapes of Glue.tla)
def glue16_to_sched(g, consts):
    sc = glue_to_sched(g, consts)
    ms = g["methods"]
    ok2 = g["accepted"] and len([m for m in ms if m.get("gate", "none") != "off"]) == 2
    sc["tags"] = ("two-rpcs", "+".join(m["ret"] for m in ms)) if ok2 else ("other",)
    sc["weight"] = 3 if ok2 else 1
    return sc


PROPS["C16"]["families"].append(dict(family="glue", trace_module="Trace_Glue", runner=_glue_runner, random_quick=0, random_thorough=0, tag="glue",
                                     exports=[dict(module="MC_Glue", name="shapes16", constants=dict(MaxMethods=2), quick={}, thorough={}, invariants=("ExportJson",),
                                                   to_sched=glue16_to_sched, view="", cap_quick=30, cap_thorough=150, timeout=600)]))
PROPS["C16"]["assumptions"] = PROPS["C16"]["assumptions"] + [
    "generated clients: two-rpc services of Glue.tla's shape family are compiled and called against a peer that answers every request with "
    "a well-formed response of the other rpc's type"]

# ------------------------------------------------------------------ chains (Chain.tla): C04 cascade, C07 / C18 across hops
def chain_fixed(tier):
    out = []
    k = 0
    for depth in (1, 2, 3):
        for delays in ([0, 0, 0], [1, 0, 2], [3, 3, 3]):
            for dl in (1000, 6):
                for script in (["Settle", "Abandon"], ["Abandon"], ["PollOnce", "Abandon"], ["PollOnce", "Deliver", "PollOnce", "Abandon"],
                               ["Settle", "CompleteLeaf"], ["Settle", "Tick5", "Abandon"], ["Settle"], ["Settle", "CompleteLeaf", "Abandon"]):
                    steps = [{"a": "Start", "dl": dl, "tr": 4242 + k, "sampled": k % 2 == 0}]
                    for a in script:
                        steps.append({"a": "Tick", "d": 5} if a == "Tick5" else {"a": a})
                    k += 1
                    out.append(dict(id="fixed:chain:%d" % k, cfg={"depth": depth, "delays": delays[:depth]}, steps=steps))
            # deadlines years away (beyond the one-year cap of the deadline timers); the script ends the chain itself
            for dl in (94608000000, 946080000000):
                for script in (["Settle", "CompleteLeaf"], ["Settle", "Abandon"], ["Settle", "CompleteLeaf", "Abandon"], ["Abandon"],
                               ["Settle", "Tick5", "CompleteLeaf"]):
                    steps = [{"a": "Start", "dl": dl, "tr": 6242 + k, "sampled": k % 2 == 0}]
                    for a in script:
                        steps.append({"a": "Tick", "d": 5} if a == "Tick5" else {"a": a})
                    k += 1
                    out.append(dict(id="fixed:chain:%d" % k, cfg={"depth": depth, "delays": delays[:depth]}, steps=steps))
    # back-pressure on one hop's client transport while the head is abandoned / the deadline passes
    for depth in (1, 2, 3):
        for g in range(1, depth + 1):
            for delays in ([0, 0, 0], [1, 0, 2]):
                for dl in (1000, 6):
                    for script in (["Settle", "GateClose", "Abandon", "Settle", "GateOpen"], ["Settle", "GateClose", "Abandon", "Settle"],
                                   ["Settle", "GateClose", "Abandon", "PollOnce", "GateOpen", "PollOnce"],
                                   ["Settle", "GateClose", "Abandon", "Settle", "Tick5", "Settle", "GateOpen"],
                                   ["GateClose", "Settle", "Abandon", "Settle", "GateOpen"], ["Settle", "GateClose", "Tick5", "Settle", "Tick5"],
                                   ["Settle", "GateClose", "CompleteLeaf", "Settle", "Abandon", "GateOpen"]):
                        steps = [{"a": "Start", "dl": dl, "tr": 5242 + k, "sampled": k % 2 == 0}]
                        for a in script:
                            steps.append({"a": "Tick", "d": 5} if a == "Tick5" else {"a": a, "k": g} if a.startswith("Gate") else {"a": a})
                        k += 1
                        out.append(dict(id="fixed:chain:%d" % k, cfg={"depth": depth, "delays": delays[:depth], "gated": [g]}, steps=steps))
    return out


def chain_family(rq, rt):
    return dict(family="chain", trace_module="Trace_Chain", random_quick=rq, random_thorough=rt, fixed=chain_fixed, exports=[])


def chain_model(**over):
    return dict(module="Chain", name="chain", spec="FairSpec", constants=dict(Depth=2, Delays="{0, 1}", Deadline=3, MaxTime=6, GateBudget=1, ExtendBy=2, **over),
                quick={}, thorough=dict(Depth=3, MaxTime=5), invariants=["Inv_C07", "Inv_C18", "Inv_AbortCause"],
                properties=["Live_Cascade"], coverage=False, timeout_thorough=2400)


PROPS["C02"]["families"].append(dict(chain_family(600, 12000), tag="chain"))
for _p in ("C04", "C07", "C18"):
    PROPS[_p]["models"].append(chain_model())
    PROPS[_p]["families"].append(chain_family(600, 12000))
    PROPS[_p]["assumptions"] = [a for a in PROPS[_p]["assumptions"] if "not yet bound" not in a and "is not bound" not in a and "not executed by this check" not in a] + [
        "chains of depth 1-3 are real client -> BaseChannel/Requests -> handler -> client ... compositions over linked instrumented transports "
        "(values passed in memory, transit delay in virtual time); polls are settle-driven rather than individually scheduled"]
_r04 = PROPS["C04"]["relevant"]
PROPS["C04"]["relevant"] = lambda e: has(e, "Cancel", "Abandon")
_r07 = PROPS["C07"]["relevant"]
PROPS["C07"]["relevant"] = lambda e: has(e, "Start") or _r07(e)
_r18 = PROPS["C18"]["relevant"]
PROPS["C18"]["relevant"] = lambda e: has(e, "Start") or _r18(e)



for _p in ("C06", "C10"):
    PROPS[_p]["models"].append(dict(
        module="MC_Server", name="server-liveness", spec="FairSpec", tiers=("thorough",),
        constants=dict(SERVER_BASE, Limit=1, Deadlines="{1, 2}", MaxTime=3, SinkMode='"coupled"', CancelBudget=1),
        quick={}, thorough={}, invariants=["TypeOK"], properties=["Live_Handlers", "Live_Eof"], coverage=False,
        workers=8, timeout_thorough=2400))
# Apalache: the balance law of the round-robin cursor as an inductive invariant, for any number of picks and pickers
PROPS["C20"]["apalache"] = [
    dict(what="base case", spec="spec/apa/RoundRobinInd.tla", cinit="ConstInit", init="Init", inv="IndInv", length=0, expect="NoError"),
    dict(what="inductive step", spec="spec/apa/RoundRobinInd.tla", cinit="ConstInit", init="IndInit", inv="IndInv", length=1, expect="NoError"),
    dict(what="invariant implies balance", spec="spec/apa/RoundRobinInd.tla", cinit="ConstInit", init="IndInit", inv="Balance", length=0, expect="NoError"),
    dict(what="non-vacuity probe", spec="spec/apa/RoundRobinInd.tla", cinit="ConstInit", init="IndInit", inv="Probe", length=0, expect="Error"),
    dict(what="load-then-store cursor is not inductive", spec="spec/apa/RoundRobinInd.tla", cinit="ConstInitSplit", init="IndInit", inv="IndInv", length=2, expect="Error"),
]

# ------------------------------------------------------------------ thorough-only models: interleaved polls and liveness
PROPS["C02"]["models"].append(dict(
    module="MC_Client", name="liveness", spec="FairSpec", tiers=("thorough",),
    constants=dict(CLIENT_BASE, Callers="{1, 2}", PeerBudget=1, Deadlines="{1, 2}", MaxTime=2, AllowEof=True, AllowHandleDrop=True),
    quick={}, thorough={}, invariants=["TypeOK"], properties=["Live_C02"], coverage=False, timeout_thorough=2400))
for _p, _inv in (("C01", "M_C01"), ("C03", "M_C03"), ("C05", "M_C05"), ("C11", "M_C11")):
    PROPS[_p]["models"].append(dict(
        module="MC_Client", name="interleaved", tiers=("thorough",),
        constants=dict(CLIENT_BASE, AtomicPolls=False, Callers="{1, 2}", PeerBudget=1, Deadlines="{2}" if _p != "C05" else "{1, 2}", MaxTime=2),
        quick={}, thorough={}, invariants=["TypeOK", _inv], coverage=False, timeout_thorough=2400))
for _p, _inv in (("C04", "M_C04"), ("C06", "M_C06"), ("C08", "M_C08"), ("C12", "M_C12")):
    PROPS[_p]["models"].append(dict(
        module="MC_Server", name="interleaved", tiers=("thorough",),
        constants=dict(SERVER_BASE, AtomicPolls=False, MaxInc=2, Limit=1 if _p in ("C12", "C06") else "<-NoLimit",
                       FreshIdsOnly=(_p != "C08"), Ids="{1}" if _p == "C08" else "{1, 2}"),
        quick={}, thorough={}, invariants=["TypeOK", _inv], coverage=False, timeout_thorough=2400))

# ------------------------------------------------------------------ chains under an OpenTelemetry layer
# `otel`: the whole process is traced (trace contexts travel in spans; Channel::call takes them from the current span);
# `otel-server`: only request streams and handlers are traced, the callers are not (an untraced peer, trace id 0 included).
# Handlers also report `context::current()`, and in half of the scenarios make their nested call with it.
PROPS["C05"]["families"].append(dict(chain_family(400, 6000), fixed=lambda tier: [], tag="chain-otel", opts={"sub": "otel"}))
PROPS["C05"]["families"].append(dict(chain_family(300, 6000), fixed=lambda tier: [], tag="chain"))
for _p in ("C07", "C18"):
    for _sub in ("otel", "otel-server"):
        PROPS[_p]["families"].append(dict(chain_family(500, 8000), fixed=lambda tier: [], tag="chain-" + _sub, opts={"sub": _sub}))
    PROPS[_p]["assumptions"] = PROPS[_p]["assumptions"] + [
        "tracing subscriber configurations: none, a process-wide OpenTelemetry layer (SDK default ParentBased(AlwaysOn) sampler), and an "
        "OpenTelemetry layer scoped to the server-side tasks with untraced callers; a request without a trace (id 0) is not required to keep it"]


# the retry stub re-issues requests: every attempt must carry the caller's deadline (C07) and trace context (C18)
def retry_fixed(tier):
    return [x for x in stubs_fixed(tier) if x["cfg"]["kind"] == "retry"]


for _p in ("C07", "C18"):
    PROPS[_p]["families"].append(dict(family="stubs", trace_module="Trace_Stubs", random_quick=0, random_thorough=0, fixed=retry_fixed, exports=[], tag="retry"))

# ------------------------------------------------------------------ the whole stack under a real tokio runtime (System.tla / ObsSys.tla)
SYS_CONSTS = dict(Conns="{1, 2}", Keys="{1}", Calls="{1, 2}", N=1, L=1, Mif=2, Deadlines="{2, 9}", MaxTime=3, MaxEnv=7, Phased=True, ExportSched=False, Faults=False)


def sys_to_sched(g, consts):
    steps = g["steps"]
    acts = tuple(sorted({s["a"] for s in steps}))
    lim = consts["L"]
    return dict(cfg={"n": consts["N"], "limit": -1 if isinstance(lim, str) else lim, "maxInFlight": consts["Mif"], "buf": 100, "respBuf": 100},
                steps=steps, tags=acts)


def sys_model(name, tiers=("quick", "thorough"), **over):
    return dict(module="MC_System", name=name, constants=dict(SYS_CONSTS, **over), quick={}, thorough={}, tiers=tiers,
                invariants=["TypeOK", "Inv_Sys"], coverage=False, workers=4, timeout_thorough=2400)


def sys_export(name, tiers=("quick", "thorough"), **over):
    return dict(module="MC_System", name=name, tiers=tiers, constants=dict(SYS_CONSTS, ExportSched=True, **over), quick={}, thorough=dict(MaxEnv=8),
                to_sched=sys_to_sched, view="View", cap_quick=400, cap_thorough=6000, timeout=600, simulate_quick=300, simulate_thorough=4000, depth=60)


def sys_fixed(tier):
    """scale: more abandoned calls at once than any fixed-size internal queue holds (all transmitted, then all dropped in one step)"""
    out = []
    for n in ((1100,) if tier == "quick" else (1100, 2500)):
        cfg = {"n": 0, "limit": -1, "maxInFlight": 4096, "buf": 4096, "respBuf": 100}
        steps = ([{"a": "Connect", "k": 1, "key": 1}, {"a": "Run"}] + [{"a": "Call", "c": i, "k": 1, "dl": 100000} for i in range(1, n + 1)]
                 + [{"a": "Run"}] + [{"a": "Abandon", "c": i} for i in range(1, n + 1)] + [{"a": "Run"}])
        out.append(dict(id="sysburst:abandon:%d" % n, cfg=cfg, steps=steps))
    # shutdown at scale: j calls are answered, the other n - j are abandoned and the only handle is dropped in the same breath, so the
    # dispatch meets responses, more queued cancellations than the runtime's per-poll budget and "every handle is gone" in one poll
    for tr in ("mem", "json"):
        for n in ((70, 130) if tier == "quick" else (70, 130, 300, 700)):
            for j in (0, 1, 2, 3):
                cfg = {"n": 0, "limit": -1, "maxInFlight": 4096, "buf": 4096, "respBuf": 100, "transport": tr}
                steps = ([{"a": "Connect", "k": 1, "key": 1}, {"a": "Run"}] + [{"a": "Call", "c": i, "k": 1, "dl": 100000} for i in range(1, n + 1)]
                         + [{"a": "Run"}] + [{"a": "Complete", "c": i} for i in range(1, j + 1)]
                         + [{"a": "Abandon", "c": i} for i in range(j + 1, n + 1)] + [{"a": "DropClient", "k": 1}, {"a": "Run"}])
                out.append(dict(id="sysburst:shutdown:%s:%d:%d" % (tr, n, j), cfg=cfg, steps=steps))
    # channel closes at scale: m channels with other keys and one with key K hang up in the same step in which a new channel with key K
    # arrives (more close notifications than the runtime's per-poll budget are queued when the limiter is polled); then one more K arrives
    for m in ((200,) if tier == "quick" else (100, 200, 500)):
        for first in (True, False):
            K = 9999
            cfg = {"n": 1, "limit": -1, "maxInFlight": 16, "buf": 16, "respBuf": 4}
            others = [{"a": "Connect", "k": i, "key": i} for i in range(1, m + 1)]
            a = [{"a": "Connect", "k": m + 1, "key": K}]
            steps = ((a + others) if first else (others + a)) + [{"a": "Run"}]
            drops = [{"a": "DropClient", "k": i} for i in range(1, m + 1)]
            steps += ([{"a": "DropClient", "k": m + 1}] + drops) if first else (drops + [{"a": "DropClient", "k": m + 1}])
            steps += [{"a": "Connect", "k": m + 2, "key": K}, {"a": "Run"}, {"a": "Connect", "k": m + 3, "key": K}, {"a": "Run"},
                      {"a": "Call", "c": 1, "k": m + 2, "dl": 100000}, {"a": "Run"}, {"a": "Complete", "c": 1}, {"a": "Run"}]
            out.append(dict(id="sysburst:closes:%d:%s" % (m, "first" if first else "last"), cfg=cfg, steps=steps))
    return out


def sys_fixed_faults(tier):
    """the server's transport reports one failure (at its next read / readiness check / flush; later operations would succeed) while
    handlers are running and the client keeps calling: the channel behind Channel::execute / spawn_incoming stops using the transport,
    is dropped, and its handlers are aborted"""
    out = []
    # (over the in-memory transport a channel that keeps using a failed transport never returns to the runtime: the harness's
    # watchdog ends such a run after `hang_s` seconds with a SysHang event, which Trace_Sys judges)
    for tr in ("json", "bincode", "mem"):
        for op in ("next", "ready", "flush"):
            for n, limit in ((0, -1), (1, 2)):
                cfg = {"n": n, "limit": limit, "maxInFlight": 16, "buf": 16, "respBuf": 4, "transport": tr}
                steps = [{"a": "Connect", "k": 1, "key": 1}, {"a": "Connect", "k": 2, "key": 2}, {"a": "Run"},
                         {"a": "Call", "c": 1, "k": 1, "dl": 100000}, {"a": "Call", "c": 2, "k": 1, "dl": 100000},
                         {"a": "Call", "c": 5, "k": 2, "dl": 100000}, {"a": "Run"},
                         {"a": "ArmServer", "k": 1, "op": op}]
                steps += [{"a": "Call", "c": 3, "k": 1, "dl": 100000}] if op == "next" else [{"a": "Complete", "c": 1}]
                steps += [{"a": "Run"}, {"a": "Call", "c": 4, "k": 1, "dl": 100000}, {"a": "Run"}, {"a": "Complete", "c": 2}, {"a": "Run"},
                          {"a": "Call", "c": 6, "k": 1, "dl": 100000}, {"a": "Run"}, {"a": "Complete", "c": 5}, {"a": "Run"}]
                out.append(dict(id="sysfault:%s:%s:%d" % (tr, op, n), cfg=cfg, steps=steps))
    return out


def sys_family(rq, rt, sub="none"):
    return dict(family="sys", trace_module="Trace_Sys", random_quick=rq, random_thorough=rt, no_mech=True, tag="sys-" + sub, fixed=sys_fixed,
                opts={"sub": sub},
                exports=[sys_export("phased"), sys_export("phased-mif1-nolimit", tiers=("thorough",), Mif=1, L="<-NoL", Calls="{1, 2, 3}", MaxEnv=6)])


for _p in ("C01", "C02", "C03", "C04", "C10", "C12", "C13"):
    PROPS[_p]["families"].append(sys_family(700, 12000))
    PROPS[_p]["models"].append(sys_model("system-phased", tiers=("quick", "thorough") if _p in ("C12", "C13") else ("thorough",)))
    PROPS[_p]["models"].append(sys_model("system-interleaved", tiers=("thorough",), Phased=False, MaxEnv=6))
    PROPS[_p]["models"].append(sys_model("system-3conns-2keys-L0", tiers=("thorough",), Conns="{1, 2, 3}", Keys="{1, 2}", L=0, Mif=1, MaxTime=2, MaxEnv=6))
    PROPS[_p]["assumptions"] = PROPS[_p]["assumptions"] + [
        "sys family: listener -> max_channels_per_key -> max_concurrent_requests_per_channel -> execute -> spawn_incoming and spawned "
        "clients on a current-thread tokio runtime with a paused clock, run until idle after (batches of) application steps; "
        "the interleavings are the runtime's, the rules of ObsSys.tla are sound for any of them"]
# C18 with many requests in flight on several connections, over the in-memory, JSON and bincode transports, without a subscriber and
# under a process-wide OpenTelemetry layer: every handler observes the trace id and sampling decision of its own call
PROPS["C18"]["families"].append(sys_family(500, 8000))
PROPS["C18"]["families"].append(sys_family(500, 8000, sub="otel"))
# C09 / C14 through the entry points applications use (Requests::execute, Channel::execute, spawn_incoming): fixed fault scenarios only
for _p in ("C09", "C14"):
    PROPS[_p]["families"].append(dict(family="sys", trace_module="Trace_Sys", random_quick=0, random_thorough=0, no_mech=True, tag="sys-faults",
                                      fixed=sys_fixed_faults, opts={"sub": "none"}, exports=[]))
    # System.tla with Faults = TRUE: the server's transport of a connection may fail at any moment (S_SrvFault); ObsSys rules on every state
    PROPS[_p]["models"].append(sys_model("system-faults", tiers=("quick", "thorough") if _p == "C09" else ("thorough",), Faults=True))
    PROPS[_p]["assumptions"] = PROPS[_p]["assumptions"] + [
        "sys-faults: one injected failure of the server's transport (read / readiness / flush, over the JSON, bincode and in-memory "
        "transports) under spawn_incoming + Channel::execute on a tokio runtime; judged by ObsSys.tla (bad09 / bad14)"]

# ------------------------------------------------------------------ manifest texts
def _mt(spec, what, design, note_extra=""):
    return dict(
        text=("%s is model-checked by TLC (exhaustive within the constants recorded in the evidence; observer invariants of the property "
              "checked in every model state), its terminal and simulated behaviours are exported as schedules and replayed against the real "
              "code with poll results and wake-ups compared step by step (drift), and every recorded trace (replayed, pinned findings, "
              "seeded random) is validated by TLC against the observer specification: %s" % (spec, what)),
        design_ref=design,
        note=("Exhaustive only within the model constants; the code is judged on the explored schedules. Trusted: TLC, the harness "
              "(executor, instrumented transport, virtual clock), the observer's reading of the statement (DESIGN.md Appendix C). " + note_extra),
        technique="TLA+ model checking (TLC) + schedule replay + TLC trace validation",
    )


MANIFEST_TEXT = {
    "C13": _mt("ChannelsPerKey.tla", "Inv_C13a/b/c on ObsKeys (per-key live count, sheds only at the limit, no arrival left undecided).", "DESIGN.md section 6, C13"),
    "C01": _mt("Client.tla with an adversarial peer", "Inv_C01a-d on ObsClient (success only with a body pushed for the call's own id and handed over after its request; no body delivered twice; error outcomes need a cause; ids unique).", "DESIGN.md section 6, C01"),
    "C02": _mt("Client.tla (capacity 1, coupled and independent sinks, EOF, handle drop)", "Inv_C02a-c on ObsClient at settle/quiescent points (no call pending at quiescence, every pushed reply handed over, peer close noticed, no spin).", "DESIGN.md section 6, C02", "Liveness under fairness is checked on the model only (thorough tier)."),
    "C03": _mt("Client.tla with the guard's three drop steps as separate actions", "Inv_C03a-d on ObsClient (at most one Cancel per id, only after its Request, never for a resolved call, owed cancels present at settle points unless excused).", "DESIGN.md section 6, C03", "Needs hook H1 for the windows inside the guard's drop."),
    "C05": _mt("Client.tla with deadlines {past,0,1,2}", "Inv_C05a-c on ObsClient (deadline errors never early and only for transmitted requests, resolved by deadline+1ms at settle points, a reply processed before the deadline wins).", "DESIGN.md section 6, C05"),
    "C09": _mt("Client.tla and Server.tla with one fault armed at each transport operation, and EOF", "Inv_C09a/b/d on ObsClient and Inv_C09s on ObsServer (dispatch/stream error names the activity, outstanding calls fail with connection errors, later calls fail fast, a failed request write fails only that call, handlers dropped with the channel, no panic).", "DESIGN.md section 6, C09"),
    "C10": _mt("Client.tla and Server.tla with handle drop / peer close at every point", "Inv_C10a/b on ObsClient and Inv_C10s on ObsServer (drain then exactly one close and Ok; prompt stop on EOF; server stream ends only after EOF with nothing tracked and everything flushed, and does end then).", "DESIGN.md section 6, C10"),
    "C11": _mt("Client.tla and Server.tla", "Inv_C11a/c on ObsClient and Inv_C11s on ObsServer (hook H3 counts vs. requests outstanding on the wire / ground-truth tracked set at every poll end; zero entries and timers once everything ended, clock stopped).", "DESIGN.md section 6, C11", "Carries known findings F6 and F8b by signature."),
    "C14": _mt("Client.tla and Server.tla over coupled and independent sinks", "Inv_C14 on ObsClient and Inv_C14s on ObsServer (start_send only with readiness credit, never after close/failure, never idle with unflushed items unless a flush/close is pending, no non-returning poll).", "DESIGN.md section 6, C14"),
    "C18": _mt("Client.tla", "Inv_C18a/b on ObsClient (request carries the caller's trace id and sampling with a fresh span; the cancel carries the request's trace id, span and sampling).", "DESIGN.md section 6, C18", "Only the client hop is bound to the code so far; server hop and chains are modelled but not yet replayed."),
    "C04": _mt("Server.tla with Cancel at every position", "Inv_C04 on ObsServer (after a consumed Cancel for a tracked incarnation: no handler poll/completion, no response; untracked cancels change nothing - checked through the count bounds).", "DESIGN.md section 6, C04", "The multi-hop cascade is not yet bound to the code."),
    "C06": _mt("Server.tla with deadlines {0,1,2}", "Inv_C06 on ObsServer (handler dropped before its deadline only with a cause; expired requests are untracked/aborted by the next complete channel poll and never polled or answered afterwards).", "DESIGN.md section 6, C06", "Carries known finding F6 by signature."),
    "C08": _mt("Server.tla with fresh, duplicate and reused ids", "Inv_C08 on ObsServer (every read request is yielded, refused or a duplicate of a tracked id; each response carries the body of a finished, still-tracked incarnation of its own id, at most once).", "DESIGN.md section 6, C08", "Carries known finding F8 by signature."),
    "C19": dict(
        text=("Hooks.tla gives the request-hook wrappers a big-step semantics Eval (who is invoked in which order, with which context and result, "
              "and the final result). TLC enumerates every expression up to depth 3 and checks the laws of the property on the semantics "
              "(handler at most once, before-parts in chained order up to the first failure, short-circuit, after-parts last); every enumerated "
              "expression (sampled in the quick tier) and seeded random deeper ones are built from the real wrapper types, executed, and the "
              "recorded invocation sequence and result are compared with Eval by TLC (Trace_Hooks)."),
        design_ref="DESIGN.md section 6, C19",
        note="The enumeration is exhaustive up to depth 3 / list length 2-3; the wrapper code is straight-line so every path of every wrapper is exercised. Trusted: TLC, the harness's dynamic hook type.",
        technique="TLA+ semantics enumerated by TLC + execution of every enumerated chain + TLC trace validation",
    ),
    "C20": dict(
        text=("Stubs.tla models the round-robin cursor with concurrent pickers (one atomic fetch-add per pick; a split load/store variant is kept as a "
              "negative test and TLC finds its imbalance), the consistent-hash pick for every hasher function and the retry loop for every policy "
              "function and result script; TLC checks balance, hash-mod-n and the retry laws exhaustively for small constants. The real stubs are run "
              "on the same enumerated retry space, sequentially and under real threads for round robin, and TLC validates the recorded picks/attempts "
              "(Trace_Stubs searches for a linearisation that follows the cursor)."),
        design_ref="DESIGN.md section 6, C20",
        note="Thread interleavings of the real code are whatever the OS produces; the exhaustive interleaving argument is on the model. Trusted: TLC, the harness's recording stubs.",
        technique="TLA+ model checking (TLC) + enumerated/threaded execution + TLC trace validation with linearisation search",
    ),
    "C15": dict(
        text=("Wire.tla models length-delimited framing over a byte stream that fragments reads and writes arbitrarily (every chunking of 1-3 byte moves "
              "and Pending results for 2-4 short messages is explored by TLC: delivered is a prefix of sent, complete at end-of-stream) and the error-kind "
              "table of both codecs. The explored chunk scripts are replayed on the real serde transport (JSON and bincode) over a scripted byte pipe with "
              "concrete messages of every class (also through a byte stream that buffers internally, with its own flush chunk script), and TLC compares "
              "every item read with the item written (Trace_Wire). Chan.tla models the in-memory transports (tokio unbounded mpsc; futures bounded mpsc with "
              "its park/unpark rule, flush and close behaviour); every interleaving of ready/send/flush/close/recv/drop-of-either-endpoint for 3 messages "
              "is replayed step by step on the real transports, predicted results compared, and the trace judged by Trace_Mem."),
        design_ref="DESIGN.md section 6, C15",
        note="Exploration level: the model is exhaustive for tiny messages; concrete values are a chosen set of classes plus seeded random scripts. Byte-exact fidelity of arbitrary payloads is serde's.",
        technique="TLA+ framing and in-memory-channel models (TLC) + replay of their schedules on the real transports + TLC trace validation",
    ),
    "C16": dict(
        text=("Message classes with boundary-valued fields and malformed frames (the concretisation of Wire.tla's classes) are sent into the real decoders, "
              "into a live server channel followed by a probe request, and through the client dispatch, under three tracing-subscriber configurations; "
              "TLC judges the recorded traces: no panic anywhere, malformed frames end the connection with an error, well-formed odd traffic leaves the "
              "connection serving."),
        design_ref="DESIGN.md section 6, C16",
        note="Exploration level: boundary classes are enumerated, byte-level garbage is seeded sampling. The specification contributes classes and sequencing, not decoder internals.",
        technique="class enumeration from the TLA+ wire model + seeded mutation + TLC trace validation",
    ),
    "C07": dict(
        text=("Wire.tla states the re-basing of deadlines as remaining time (Rebase) and proves by TLC's evaluation of RebaseLaw/ChainLaw over a small time "
              "domain that one hop shifts a deadline by at most the transit time and never earlier, a passed deadline arrives as 'now', and three hops "
              "accumulate at most the summed transit. Real requests are sent through JSON, bincode and the in-memory transports with virtual transit "
              "delays and TLC checks each observed deadline against Rebase; a JSON request without deadline must decode to now + 10 s."),
        design_ref="DESIGN.md section 6, C07",
        note="Exploration level: single hops are executed; multi-hop composition is established on the model only.",
        technique="TLA+ arithmetic law checked by TLC + single-hop executions under a virtual clock + TLC trace validation",
    ),
    "C17": dict(
        text=("Glue.tla transcribes the macro's naming pipeline (unraw, snake_to_camel character by character, reserved names) and TLC enumerates service "
              "shapes with the predicted variants and accept/reject outcome. Every sampled accepted shape is turned into a real #[tarpc::service] "
              "definition, compiled and executed end to end (generated client -> in-memory transport -> generated serve glue -> implementor) with "
              "argument values that expose any permutation or sibling mix-up, and TLC checks the recorded calls (Trace_Glue); rejected shapes must fail "
              "to compile."),
        design_ref="DESIGN.md section 6, C17",
        note="Exploration level over a bounded family of programs. Trusted: the generator tools/glue.py, rustc.",
        technique="TLA+ enumeration of program shapes + generated programs executed + TLC trace validation",
    ),
    "C12": _mt("Server.tla with MaxRequests L in {0,1,2}", "Inv_C12 on ObsServer (yield only with fewer than L others tracked at the read instant; refusal only with at least L others; each refusal answered once with WouldBlock and never executed).", "DESIGN.md section 6, C12", "Carries known finding F7 by signature."),
}


# ------------------------------------------------------------------ round-4 additions to the manifest texts
_SYS = (" Additionally System.tla (the whole accept pipeline and spawned clients, 24 actions) is model-checked against the end-to-end rules of "
        "ObsSys.tla (scale scenarios beyond the runtime's per-poll budget included), its phased behaviours are exported as schedules, and the real stack (server::incoming combinators, spawn_incoming, "
        "NewClient::spawn on a current-thread tokio runtime with a paused clock, run until idle) is executed on them and on seeded random "
        "schedules; Trace_Sys.tla judges the recorded traces with the same rules (%s).")
for _p, _r in (("C01", "Inv_C01sys"), ("C02", "Inv_C02sys"), ("C03", "Inv_C03sys"), ("C04", "Inv_C04sys"), ("C10", "Inv_C10sys"), ("C12", "Inv_C12sys"), ("C13", "Inv_C13sys")):
    MANIFEST_TEXT[_p] = dict(MANIFEST_TEXT[_p], text=MANIFEST_TEXT[_p]["text"] + _SYS % _r)
_OTEL = (" The chain family (real client -> server -> handler -> client chains of depth 1-3) is executed without a tracing subscriber, under a "
         "process-wide OpenTelemetry layer and with the layer scoped to the server side (untraced callers, trace id 0 included); handlers "
         "also report context::current() and use it for nested calls; Trace_Chain.tla judges deadlines and trace contexts at every hop.")
MANIFEST_TEXT["C07"] = dict(MANIFEST_TEXT["C07"], text=MANIFEST_TEXT["C07"]["text"] + _OTEL,
                            note="Exploration level for the codec crossing (single hops); chains of depth 1-3 are executed in memory with virtual transit delays.")
MANIFEST_TEXT["C18"] = dict(MANIFEST_TEXT["C18"], text=MANIFEST_TEXT["C18"]["text"] + _OTEL + " The sys family (whole stack on a real runtime, many requests in flight on several "
                            "connections, in-memory / JSON / bincode transports, with and without an OpenTelemetry layer) checks that every handler observes the trace "
                            "context of its own call (Inv_C18sys).",
                            note=MANIFEST_TEXT["C18"]["note"].replace("Only the client hop is bound to the code so far; server hop and chains are modelled but not yet replayed.", "Chains are settle-driven rather than individually scheduled."))
MANIFEST_TEXT["C04"] = dict(MANIFEST_TEXT["C04"], note=MANIFEST_TEXT["C04"]["note"].replace("The multi-hop cascade is not yet bound to the code.", "The multi-hop cascade is executed by the chain family (Chain.tla / Trace_Chain.tla), including handlers that own the only handle of their downstream client."))
MANIFEST_TEXT["C16"] = dict(MANIFEST_TEXT["C16"], text=MANIFEST_TEXT["C16"]["text"] + " Two-rpc services enumerated by Glue.tla are compiled and their generated "
                            "clients called against a peer that answers with a well-formed response of the other rpc's type (Trace_Glue.tla: no panic).")
MANIFEST_TEXT["C17"] = dict(MANIFEST_TEXT["C17"], text=MANIFEST_TEXT["C17"]["text"] + " The shape family includes #[cfg]-gated rpcs (present or compiled out).")
_SYSF = (" Additionally the whole stack (spawn_incoming + Channel::execute + spawned clients on a tokio runtime) is executed with one "
         "injected failure of the server's transport (read / readiness / flush; JSON, bincode and in-memory) and judged by Trace_Sys.tla (%s): the "
         "failed transport is never used again, the channel is dropped and its handlers are aborted; System.tla with its fault action "
         "(S_SrvFault) is model-checked against the same ObsSys rules.")
MANIFEST_TEXT["C09"] = dict(MANIFEST_TEXT["C09"], text=MANIFEST_TEXT["C09"]["text"] + _SYSF % "Inv_C09sys")
MANIFEST_TEXT["C14"] = dict(MANIFEST_TEXT["C14"], text=MANIFEST_TEXT["C14"]["text"] + _SYSF % "Inv_C14sys")

NOT_APPLICABLE = {}
