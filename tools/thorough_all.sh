#!/bin/bash
# thorough_all.sh [<PROP>...]: run the thorough tier of every (or the given) property once, one line per property.
# Meant for `vp run --with-repo --mem 40g -- bash -c 'VERIF_REPO=$VP_RUN_REPO tools/thorough_all.sh'`.
PROPS=${@:-C13 C19 C20 C17 C15 C16 C07 C18 C08 C12 C04 C11 C06 C14 C10 C09 C01 C03 C05 C02}
cd "$(dirname "$0")/.."
for P in $PROPS; do
  t0=$(date +%s)
  ./check $P thorough > .work-thorough-$P.txt 2>&1; rc=$?
  echo "$P thorough exit=$rc $(( $(date +%s) - t0 ))s $(grep -E '^\[C[0-9]+\] thorough' .work-thorough-$P.txt | tail -1)"
  grep -E "^VIOLATION|violated in|tool error|MECH-DRIFT|hit its time limit" .work-thorough-$P.txt | head -5
done
