#!/usr/bin/env python3
"""dev helper: dev.py <family> <TraceModule> <Verdict> [vh args...] -> summary of violations"""
import sys, os, json, collections
sys.path.insert(0, os.path.dirname(os.path.abspath(__file__)))
import common as C
fam, mod, verdict = sys.argv[1:4]
rest = sys.argv[4:]
wd = C.workdir("dev")
import subprocess
trace = os.path.join(wd, "t.ndjson"); rep = os.path.join(wd, "r.json")
subprocess.check_call([C.VH, fam, "--trace", trace, "--report", rep] + rest)
cfg = os.path.join(wd, "t.cfg")
C.write_cfg(cfg, "TSpec", {}, (verdict, "Accepted"))
viols, n = C.validate_trace(mod, cfg, trace, wd, parts=8)
report = json.load(open(rep))
idx = {e["scn"]: e for e in report["index"]}
by = collections.defaultdict(list)
for v in viols:
    by[(v["inv"], tuple(v["sigs"]))].append(v)
print("events", n, "scenarios", report["executed"], "skipped", report.get("skipped_steps"))
for inv, vs in sorted(by.items()):
    if inv[1] and not os.environ.get("SHOWKNOWN"):
        print(inv, len(vs), "(known signature)")
        continue
    print(inv, len(vs), "e.g. scn", [v["scn"] for v in vs[:8]])
    v = vs[0]
    print("   first:", v["scn"], "line", v["line"], json.dumps(idx[v["scn"]]["cfg"]))
    print("   steps:", json.dumps(idx[v["scn"]]["steps"]))
