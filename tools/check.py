#!/usr/bin/env python3
"""./check Cxx quick|thorough   ./check --setup   ./check --replay <file>

Per property: (a) TLC model-checks the mechanism specification's config for the property,
(b) TLC-derived schedules (+ pinned finding schedules + seeded random schedules) are executed by
the Rust harness against /repo's working tree, (c) TLC validates every recorded trace against the
observer specification; a violated observer invariant on a real trace is the only source of a
VIOLATION line.  Exit 0 = held, 1 = violation, 2 = tool error."""
import glob
import json
import os
import sys
import threading
import time
import traceback

sys.path.insert(0, os.path.dirname(os.path.abspath(__file__)))
import common as C  # noqa: E402
import mech  # noqa: E402
from props import PROPS  # noqa: E402


def tier_of(argv_tier):
    t = argv_tier or os.environ.get("VERIF_TIER") or "quick"
    return "thorough" if t.startswith("t") else "quick"


def load_findings(prop):
    """Pinned reproduction schedules (open and fixed findings) for this property."""
    res = []
    for fn in sorted(glob.glob(os.path.join(C.ROOT, "findings", "*.json"))):
        with open(fn) as f:
            o = json.load(f)
        if prop in o.get("properties", []):
            o["_file"] = fn
            res.append(o)
    return res


def run_property(prop, tier, replay=None):
    t_start = time.time()
    P = PROPS[prop]
    seed = int(os.environ.get("VERIF_SEED", "0") or 0)
    wd = C.workdir("%s-%s" % (prop, tier if not replay else "replay"))
    known = C.load_known().get(prop, {})
    notes = []

    # ---- build
    bt = C.build_harness()
    C.log("[%s] harness built in %.1fs" % (prop, bt))

    # ---- (a) model checking, in the background
    mc_results = []
    apa_results = []

    def mc_work():
        for m in P.get("models", []):
            if replay:
                break
            if tier not in m.get("tiers", ("quick", "thorough")):
                continue
            consts = dict(m["constants"])
            consts.update(m.get(tier, {}))
            cfg = os.path.join(wd, "%s-%s.cfg" % (m["module"], m.get("name", "mc")))
            C.write_cfg(cfg, m.get("spec", "Spec"), consts, m.get("invariants", ()),
                        m.get("properties", ()), m.get("constraint"), m.get("view"))
            r = C.run_tlc(m["module"], cfg, wd, workers=m.get("workers", 6),
                          timeout=m.get("timeout_" + tier, 1500 if tier == "thorough" else 600),
                          coverage=m.get("coverage", m["module"] != "MC_Server"), heap=m.get("heap", "12g"),
                          simulate=m.get("simulate_" + tier), depth=m.get("depth"))
            mc_results.append((m, consts, r))
        for ap in P.get("apalache", []):
            if replay or tier not in ap.get("tiers", ("quick", "thorough")):
                continue
            outcome, wall = C.run_apalache(ap["spec"], ap["cinit"], ap["init"], ap["inv"], ap["length"], wd,
                                           timeout=ap.get("timeout", 900))
            apa_results.append(dict(ap, outcome=outcome, wall_s=round(wall, 1)))

    mc_thread = threading.Thread(target=mc_work)
    mc_thread.start()

    # ---- (b) schedules
    runs = []  # (family, trace, report)
    try:
        for fam in P["families"]:
            fname = fam["family"]
            scheds = []
            if replay:
                if replay.get("family") == fname:
                    scheds.append(dict(id="replay", cfg=replay.get("cfg", {}), steps=replay.get("steps", [])))
                else:
                    continue
            else:
                for fnd in load_findings(prop):
                    if fnd.get("family") == fname:
                        scheds.append(dict(id="finding:" + fnd["finding"], cfg=fnd.get("cfg", {}),
                                           steps=fnd["steps"]))
                if "fixed" in fam:
                    scheds += fam["fixed"](tier)
                for ex in fam.get("exports", []):
                    if tier not in ex.get("tiers", ("quick", "thorough")):
                        continue
                    consts = dict(ex["constants"])
                    consts.update(ex.get(tier, {}))
                    cfg = os.path.join(wd, "%s-export-%s.cfg" % (ex["module"], ex.get("name", "x")))
                    C.write_cfg(cfg, ex.get("spec", "Spec"), consts, ex.get("invariants", ("ExportJson",)),
                                (), ex.get("constraint"), ex.get("view", "View") or None)
                    got = []
                    if not ex.get("simulate_only"):
                        r = C.run_tlc(ex["module"], cfg, wd, workers=ex.get("workers", 4),
                                      timeout=ex.get("timeout", 600), heap="6g")
                        got += C.extract_scheds(r.out)
                    sim = ex.get("simulate_" + tier)
                    if sim:
                        r = C.run_tlc(ex["module"], cfg, wd, workers=1, timeout=ex.get("timeout", 600),
                                      simulate=sim, depth=ex.get("depth", 200), seed=seed, heap="4g")
                        got += C.extract_scheds(r.out)
                    if not got:
                        C.log(r.out[-2000:])
                        raise C.ToolError("no schedules exported by %s" % ex["module"])
                    seen = set()
                    k = 0
                    groups = {}
                    for g in got:
                        h = C.sched_hash(g)
                        if h in seen:
                            continue
                        seen.add(h)
                        tags = tuple(sorted(g.get("tags", []))) if isinstance(g, dict) else ()
                        k += 1
                        if "to_sched" in ex:
                            sc = ex["to_sched"](g, consts)
                            sc["id"] = "tlc:%s:%d" % (ex.get("name", "x"), k)
                            groups.setdefault(tuple(sc.get("tags", ())), []).append(sc)
                            continue
                        steps, expect = ex["convert"](g["steps"] if isinstance(g, dict) else g)
                        groups.setdefault(tags, []).append(
                            dict(id="tlc:%s:%d" % (ex.get("name", "x"), k), cfg=ex["cfg_of"](consts),
                                 steps=steps, expect=expect, tags=list(tags)))
                    notes.append("export %s: %d behaviours, %d distinct schedules, %d tag sets" % (
                        ex.get("name", "x"), len(got), k, len(groups)))
                    # take schedules round-robin over the tag sets (rare combinations first), up to the cap
                    import random as _r
                    rr = _r.Random(seed)
                    cap = ex.get("cap_" + tier) or k
                    order = sorted(groups.keys(), key=lambda t: (len(groups[t]), t))
                    for t in order:
                        rr.shuffle(groups[t])
                    picked = []
                    i = 0
                    while len(picked) < cap and any(groups[t] for t in order):
                        t = order[i % len(order)]
                        # a schedule may ask for its class to be sampled more densely ("weight" picks per turn)
                        for _ in range(int(groups[t][-1].get("weight", 1)) if groups[t] else 0):
                            if groups[t] and len(picked) < cap:
                                picked.append(groups[t].pop())
                        i += 1
                    scheds += picked
            sf = os.path.join(wd, "%s-%s.sched.jsonl" % (fname, fam.get("tag", "run")))
            with open(sf, "w") as f:
                for s in scheds:
                    f.write(json.dumps(s) + "\n")
            nrand = 0 if replay else fam.get("random_" + tier, 0)
            if "runner" in fam:
                trace, rep = fam["runner"](wd, scheds, seed, tier)
            else:
                trace, rep = C.run_harness(fname, wd, fam.get("tag", "run"), sched_file=sf, random=nrand, seed=seed,
                                           opts=fam.get("opts"), timeout=1500)
            runs.append((fam, trace, rep))
    except Exception:
        mc_thread.join()
        raise

    # ---- (c) trace validation against the observer
    all_viol = []
    events = 0
    scenarios = 0
    drift = []
    # code -> mechanism conformance (informational: drift of the specification, never a verdict), in the background
    mech_out = []

    def mech_work():
        for fam, trace, rep in runs:
            if fam["family"] in mech.FAMILIES and not fam.get("no_mech"):
                try:
                    r = mech.conform(fam["family"], trace, wd, max_parallel=6)
                    r["family"] = fam["family"]
                    r["tag"] = fam.get("tag", "run")
                    idx = {e["scn"]: e for e in rep.get("index", [])}
                    for d in r["diverged"]:
                        d["id"] = idx.get(d["scn"], {}).get("id")
                    mech_out.append(r)
                except C.ToolError as ex:
                    mech_out.append(dict(family=fam["family"], tag=fam.get("tag", "run"), error=str(ex), scenarios=0,
                                         conforming=0, diverged=[]))

    mech_thread = threading.Thread(target=mech_work)
    mech_thread.start()
    for fam, trace, rep in runs:
        tcfg = os.path.join(wd, "%s-%s.cfg" % (fam["trace_module"], prop))
        C.write_cfg(tcfg, "TSpec", fam.get("trace_constants", {}), (P["verdict"], "Accepted"))
        viols, n = C.validate_trace(fam["trace_module"], tcfg, trace, wd,
                                    parts=8 if tier == "thorough" else 6)
        events += n
        scenarios += rep.get("executed", 0)
        for m in rep.get("mismatches", []):
            drift.append(dict(family=fam["family"], **m))
        index = {e["scn"]: e for e in rep.get("index", [])}
        for v in viols:
            v["family"] = fam["family"]
            v["entry"] = index.get(v["scn"], {})
            all_viol.append(v)
    mc_thread.join()
    mech_thread.join()

    # ---- verdict
    out_lines = []
    n_viol = 0
    known_seen = {}
    for v in all_viol:
        matched = [s for s in v["sigs"] if s in known]
        # known only if every reason reported with the violation is a listed signature
        if matched and len(matched) == len(v["sigs"]) and not v.get("unsigned"):
            known_seen.setdefault(matched[0], v)
            continue
        n_viol += 1
        if n_viol <= 10:
            path = C.write_replay(prop, v["family"], v["entry"], v["inv"], seed,
                                  extra=dict(event_line=v["line"]))
            out_lines.append("VIOLATION property=%s replay=%s" % (prop, path))
            C.log("[%s] %s violated in scenario %s (%s) at event %d" % (
                prop, v["inv"], v["scn"], v["entry"].get("id"), v["line"]))
    for sig, v in known_seen.items():
        out_lines.append("KNOWN-FINDING: property=%s sig=%s %s" % (prop, sig, known[sig]))

    # ---- model-check results
    states = trans = 0
    mc_summ = []
    tool_err = None
    for m, consts, r in mc_results:
        states += r.distinct
        trans += r.generated
        never = sorted(a for a, (d, g) in r.coverage.items() if g == 0)
        mc_summ.append(dict(module=m["module"], name=m.get("name", "mc"), constants={k: str(v) for k, v in consts.items()},
                            invariants=list(m.get("invariants", ())), properties=list(m.get("properties", ())),
                            distinct_states=r.distinct, states_generated=r.generated, depth=r.depth,
                            wall_s=round(r.wall, 1), completed=r.ok, timeout=r.timeout,
                            actions_never_taken=never,
                            simulated=bool(m.get("simulate_" + tier))))
        if r.violated and not m.get("expect_violation") == r.violated:
            tool_err = "model %s: invariant %s violated in the specification itself" % (m["module"], r.violated)
            C.log(r.out[-3000:])
        elif r.error:
            tool_err = "model %s: %s" % (m["module"], r.error)
            C.log(r.out[-3000:])
        elif r.timeout and not m.get("simulate_" + tier) and not m.get("timeout_ok"):
            notes.append("model %s/%s hit its time limit after %d distinct states (bounded, not exhaustive)" % (
                m["module"], m.get("name", "mc"), r.distinct))

    for ar in apa_results:
        if ar["outcome"] != ar["expect"]:
            tool_err = "apalache %s --init=%s --inv=%s: outcome %s, expected %s" % (
                ar["spec"], ar["init"], ar["inv"], ar["outcome"], ar["expect"])
    if apa_results:
        notes.append("apalache: " + "; ".join("%s %s/%s/%s len %d -> %s (%ss)" % (
            a["what"], a["cinit"], a["init"], a["inv"], a["length"], a["outcome"], a["wall_s"]) for a in apa_results))

    # ---- evidence
    distinct = {}
    for fam, trace, rep in runs:
        for e in rep.get("index", []):
            if P["relevant"](e):
                distinct[C.sched_hash([e.get("cfg"), e.get("steps")])] = 1
    samples = []
    for fam, trace, rep in runs:
        idx = rep.get("index", [])
        for e in idx[:2] + idx[-1:]:
            samples.append(dict(family=fam["family"], id=e.get("id"), cfg=e.get("cfg"), steps=e.get("steps")))
    cov = dict(
        states=states, transitions=trans,
        traces_validated_against_impl=scenarios,
        evaluations=scenarios,
        distinct_nontrivial=len(distinct),
        rule=P["rule"],
        samples=samples[:6],
        exhaustive=all(x["completed"] and not x["simulated"] for x in mc_summ) if mc_summ else False,
        trace_events=events,
        model_runs=mc_summ,
        drift=drift[:10],
        drift_count=len(drift),
        known_findings_observed=sorted(known_seen.keys()),
        mechanism_conformance=[dict(family=m["family"], tag=m["tag"], scenarios=m["scenarios"], conforming=m["conforming"],
                                    error=m.get("error"), first_divergences=m["diverged"][:5]) for m in mech_out],
        notes=notes,
    )
    wall = time.time() - t_start
    if not replay:
        C.write_evidence(prop, tier, seed, P["level"], cov, P["assumptions"], wall, n_viol)
    for d in drift[:5]:
        print("DRIFT property=%s family=%s schedule=%s step=%s" % (
            prop, d.get("family"), d.get("id"), d.get("at", {}).get("step")))
    for m in mech_out:
        for d in m["diverged"][:3]:
            print("MECH-DRIFT property=%s family=%s schedule=%s event=%s what=%s" % (
                prop, m["family"], d.get("id"), d.get("line"), d.get("what").replace(" ", "_")))
    for l in out_lines:
        print(l)
    if tool_err:
        C.log("[%s] tool error: %s" % (prop, tool_err))
        return 2
    C.log("[%s] %s: %d scenarios, %d events, %d states, %d violations, %d known, %.0fs" % (
        prop, tier, scenarios, events, states, n_viol, len(known_seen), wall))
    return 1 if n_viol else 0


def setup():
    C.build_harness()
    bad = 0
    for fn in sorted(glob.glob(os.path.join(C.SPEC, "*.tla"))):
        mod = os.path.basename(fn)[:-4]
        ok, out = C.tlc_ver(mod)
        if not ok:
            C.log(out[-1500:])
            bad += 1
    return 2 if bad else 0


def main():
    a = sys.argv[1:]
    try:
        if not a:
            print(__doc__)
            return 2
        if a[0] == "--setup":
            return setup()
        if a[0] == "--selftest":
            import selftest
            return selftest.main(a[1:])
        if a[0] == "--replay":
            with open(a[1]) as f:
                rp = json.load(f)
            return run_property(rp["property"], "quick", replay=rp)
        prop = a[0]
        if prop not in PROPS:
            C.log("unknown property %s" % prop)
            return 2
        return run_property(prop, tier_of(a[1] if len(a) > 1 else None))
    except C.ToolError as e:
        C.log("tool error: %s" % e)
        return 2
    except Exception:
        traceback.print_exc()
        return 2


if __name__ == "__main__":
    sys.exit(main())
