#!/bin/bash
# seeded_eval2.sh <tag> <patch> <PROP> [<PROP>...]: like seeded_eval.sh but on a private copy of the repository's HEAD
# (VERIF_REPO) and in a private scratch area (VERIF_SCRATCH): /repo and /verif's evidence are not touched, so several
# evaluations can run side by side.  The copy and the scratch area are removed afterwards.
TAG=$1; PATCH=$2; shift 2
RC=/tmp/rc-$TAG; SC=/tmp/scr-$TAG
rm -rf $RC $SC; mkdir -p $RC $SC
git -C /repo archive HEAD | tar -x -C $RC || exit 2
( cd $RC && patch -p1 -s < "$PATCH" ) || { echo "patch does not apply"; rm -rf $RC $SC; exit 2; }
for P in "$@"; do
  cd /verif && VERIF_REPO=$RC VERIF_SCRATCH=$SC ./check $P quick > /tmp/eval2-$TAG-$P.txt 2>&1; rc=$?
  echo "$TAG $P exit=$rc $(grep -E '^\[C.*quick' /tmp/eval2-$TAG-$P.txt | tail -1)"
  grep -E "violated in" /tmp/eval2-$TAG-$P.txt | awk '{print $2}' | sort | uniq -c | head -4
  grep -E "^MECH-DRIFT" /tmp/eval2-$TAG-$P.txt | head -2
done
rm -rf $RC $SC
