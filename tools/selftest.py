#!/usr/bin/env python3
"""./check --selftest [ID ...]: applies each kept property-breaking change (seeded/<ID>/patch.diff from the sub-agents and
selftest/mutants/<prop>-*.diff of my own) to /repo, runs the quick check of the property it breaks, expects exit 1 with a
VIOLATION line, and restores /repo.  Writes selftest/RESULTS.md.  Never leaves /repo modified."""
import glob, json, os, subprocess, sys, time

ROOT = os.path.dirname(os.path.dirname(os.path.abspath(__file__)))


def sh(cmd, **kw):
    return subprocess.run(cmd, shell=True, stdout=subprocess.PIPE, stderr=subprocess.STDOUT, text=True, **kw)


def binding_cases():
    """Demonstrates that the trace specifications are bound to what the harness records: a recorded client trace is
    accepted as it is; after corrupting one recorded field / dropping one kind of event it is rejected."""
    sys.path.insert(0, os.path.join(ROOT, "tools"))
    import common as C
    import mech
    C.build_harness()
    wd = C.workdir("selftest-binding")
    trace = os.path.join(wd, "t.ndjson")
    subprocess.check_call([C.VH, "client", "--random", "300", "--seed", "7", "--trace", trace,
                           "--report", os.path.join(wd, "r.json"), "--opt", "faults=0"], stdout=subprocess.DEVNULL)
    lines = open(trace).read().splitlines()

    def judge(name, ls, verdict):
        fn = os.path.join(wd, name + ".ndjson")
        with open(fn, "w") as f:
            f.write("\n".join(ls) + "\n")
        cfg = os.path.join(wd, name + ".cfg")
        C.write_cfg(cfg, "TSpec", {}, (verdict, "Accepted"))
        viols, _ = C.validate_trace("Trace_Client", cfg, fn, wd, parts=4)
        m = mech.conform("client", fn, wd)
        return len(viols), len(m["diverged"])

    rows = []
    v, d = judge("intact", lines, "Verdict_All")
    rows.append(("binding: recorded trace, untouched", "all client", "own", "accepted (0 reports, 0 divergences)" if v == 0 and d == 0
                 else "UNEXPECTED: %d reports, %d divergences" % (v, d), 0))
    import json as J
    # (a) one in-flight count off by one
    ls = list(lines)
    k = [i for i, l in enumerate(ls) if '"ev":"PollEnd"' in l and '"who":"d"' in l and '"res":"pending"' in l and '"infl":1' in l][5]
    e = J.loads(ls[k]); e["infl"] += 1; e["timers"] += 1; ls[k] = J.dumps(e, separators=(",", ":"))
    v, d = judge("count", ls, "Verdict_C11")
    rows.append(("binding: one logged in-flight count +1", "C11", "own", "rejected (observer reports %d, mechanism divergences %d)" % (v, d)
                 if v and d else "NOT rejected (%d, %d)" % (v, d), 0))
    # (b) the hook that logs Cancel messages removed
    ls = [l for l in lines if not ('"ev":"WireOut"' in l and '"kind":"cancel"' in l)]
    v, d = judge("nocancel", ls, "Verdict_C03")
    rows.append(("binding: Cancel messages no longer logged", "C03", "own", "rejected (observer reports %d)" % v if v else "NOT rejected", 0))
    # (c) one delivered body replaced
    ls = list(lines)
    k = [i for i, l in enumerate(ls) if '"ev":"CallResolved"' in l and '"kind":"ok"' in l][3]
    e = J.loads(ls[k]); e["body"] = "r99.99"; ls[k] = J.dumps(e, separators=(",", ":"))
    v, d = judge("body", ls, "Verdict_C01")
    rows.append(("binding: one delivered body replaced", "C01", "own", "rejected (observer reports %d, mechanism divergences %d)" % (v, d)
                 if v and d else "NOT rejected (%d, %d)" % (v, d), 0))
    return rows


def main(ids):
    if sh("git -C /repo status --short").stdout.strip():
        print("/repo is not clean; refusing to run the self-test")
        return 2
    cases = []
    for d in sorted(glob.glob(os.path.join(ROOT, "seeded", "*"))):
        meta = json.load(open(os.path.join(d, "meta.json")))
        cases.append((os.path.basename(d), meta["property"], os.path.join(d, "patch.diff"), "sub-agent"))
    for f in sorted(glob.glob(os.path.join(ROOT, "selftest", "mutants", "*.diff"))):
        name = os.path.basename(f)[:-5]
        cases.append((name, name.split("-")[0], f, "own"))
    if ids:
        cases = [c for c in cases if c[0] in ids or c[1] in ids]
    rows, bad = [], 0
    if not ids or "binding" in ids:
        for row in binding_cases():
            rows.append(row)
            print(row, flush=True)
            if "NOT" in row[3] or "UNEXPECTED" in row[3]:
                bad += 1
    for name, prop, patch, origin in cases:
        t0 = time.time()
        a = sh("git -C /repo apply %s" % patch)
        if a.returncode != 0:
            rows.append((name, prop, origin, "patch does not apply", 0))
            bad += 1
            continue
        try:
            # run in a scratch area: the evidence files of /verif must only ever describe the unchanged tree
            env = dict(os.environ, VERIF_SCRATCH=os.path.join(ROOT, ".work", "selftest-scratch"))
            os.makedirs(env["VERIF_SCRATCH"], exist_ok=True)
            r = sh("./check %s quick" % prop, cwd=ROOT, env=env)
        finally:
            sh("git -C /repo checkout -- .")
        nv = r.stdout.count("\nVIOLATION ") + (1 if r.stdout.startswith("VIOLATION ") else 0)
        ok = r.returncode == 1 and nv > 0
        if not ok:
            bad += 1
        rows.append((name, prop, origin, "detected (exit 1, %d VIOLATION lines)" % nv if ok else "NOT detected (exit %d)" % r.returncode,
                     time.time() - t0))
        print(rows[-1], flush=True)
    with open(os.path.join(ROOT, "selftest", "RESULTS.md"), "w") as f:
        f.write("# Self-test: property-breaking changes vs. quick checks\n\n| change | property | origin | result | s |\n|---|---|---|---|---|\n")
        for row in rows:
            f.write("| %s | %s | %s | %s | %.0f |\n" % row)
    return 1 if bad else 0


if __name__ == "__main__":
    sys.exit(main(sys.argv[1:]))
