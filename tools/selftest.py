#!/usr/bin/env python3
"""./check --selftest [ID ...]: applies each kept property-breaking change (seeded/<ID>/patch.diff from the sub-agents and
selftest/mutants/<prop>-*.diff of my own) to /repo, runs the quick check of the property it breaks, expects exit 1 with a
VIOLATION line, and restores /repo.  Writes selftest/RESULTS.md.  Never leaves /repo modified."""
import glob, json, os, subprocess, sys, time

ROOT = os.path.dirname(os.path.dirname(os.path.abspath(__file__)))


def sh(cmd, **kw):
    return subprocess.run(cmd, shell=True, stdout=subprocess.PIPE, stderr=subprocess.STDOUT, text=True, **kw)


def main(ids):
    if sh("git -C /repo status --short").stdout.strip():
        print("/repo is not clean; refusing to run the self-test")
        return 2
    cases = []
    for d in sorted(glob.glob(os.path.join(ROOT, "seeded", "*"))):
        meta = json.load(open(os.path.join(d, "meta.json")))
        cases.append((os.path.basename(d), meta["property"], os.path.join(d, "patch.diff"), "sub-agent"))
    for f in sorted(glob.glob(os.path.join(ROOT, "selftest", "mutants", "*.diff"))):
        name = os.path.basename(f)[:-5]
        cases.append((name, name.split("-")[0], f, "own"))
    if ids:
        cases = [c for c in cases if c[0] in ids or c[1] in ids]
    rows, bad = [], 0
    for name, prop, patch, origin in cases:
        t0 = time.time()
        a = sh("git -C /repo apply %s" % patch)
        if a.returncode != 0:
            rows.append((name, prop, origin, "patch does not apply", 0))
            bad += 1
            continue
        try:
            r = sh("./check %s quick" % prop, cwd=ROOT)
        finally:
            sh("git -C /repo checkout -- .")
        nv = r.stdout.count("\nVIOLATION ") + (1 if r.stdout.startswith("VIOLATION ") else 0)
        ok = r.returncode == 1 and nv > 0
        if not ok:
            bad += 1
        rows.append((name, prop, origin, "detected (exit 1, %d VIOLATION lines)" % nv if ok else "NOT detected (exit %d)" % r.returncode,
                     time.time() - t0))
        print(rows[-1], flush=True)
    with open(os.path.join(ROOT, "selftest", "RESULTS.md"), "w") as f:
        f.write("# Self-test: property-breaking changes vs. quick checks\n\n| change | property | origin | result | s |\n|---|---|---|---|---|\n")
        for row in rows:
            f.write("| %s | %s | %s | %s | %.0f |\n" % row)
    return 1 if bad else 0


if __name__ == "__main__":
    sys.exit(main(sys.argv[1:]))
