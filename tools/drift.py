#!/usr/bin/env python3
"""drift.py <PROP> [n]: show the n-th recorded drift of the last run of PROP: schedule with predictions, and the real trace."""
import json, sys, glob, subprocess, os
prop = sys.argv[1]; n = int(sys.argv[2]) if len(sys.argv) > 2 else 0
e = json.load(open('/verif/evidence/%s.json' % prop)); d = e['coverage']['drift'][n]
print("DRIFT", d['family'], d['id'], json.dumps(d['at'])[:400])
for fn in glob.glob('/verif/.work/%s-quick/%s*.sched.jsonl' % (prop, d['family'])):
    for l in open(fn):
        o = json.loads(l)
        if o['id'] == d['id']:
            print(json.dumps(o['cfg']))
            for i, (s, x) in enumerate(zip(o['steps'], o['expect'])): print(' ', i, json.dumps(s), json.dumps(x))
            open('/tmp/drift.jsonl', 'w').write(l)
subprocess.run(['/verif/harness/target/debug/vh', d['family'], '--sched', '/tmp/drift.jsonl', '--trace', '/tmp/drift.ndjson', '--report', '/tmp/drift.json'])
for l in open('/tmp/drift.ndjson'):
    ev = json.loads(l)
    if ev['ev'] in ('PollStart', 'Settled', 'Quiescent', 'PeerPush', 'Reset'): continue
    x = {k: v for k, v in ev.items() if k not in ('scn', 'task', 'ep', 'seq', 'unflushed')}
    print('   ', json.dumps(x)[:140])
