#!/usr/bin/env python3
"""seeded_task.py <round> <PROP>...: creates a scratch worktree /tmp/wt-<PROP>-<round> of /repo per property and writes TASK.md into it -
the only thing a seeding sub-agent is given: the property's text, and the circumstances earlier seeded changes already relied on."""
import json, glob, subprocess, sys
rnd = sys.argv[1]
props = {}
for l in open('/verif/properties.jsonl'):
    p = json.loads(l); props[p['id']] = p
for pid in sys.argv[2:]:
    wt = "/tmp/wt-%s-%s" % (pid, rnd)
    subprocess.check_call(["git", "-C", "/repo", "worktree", "add", "-q", "--detach", wt, "HEAD"])
    ps = []
    for d in sorted(glob.glob('/verif/seeded/%s*' % pid)):
        m = json.load(open(d + '/meta.json'))
        if m['property'] == pid: ps.append(m['needs_to_manifest'])
    p = props[pid]
    n = pid[1:].lower()
    t = f"""# Task: seed one realistic property-breaking change into google/tarpc

You work ONLY inside the git worktree `{wt}` (a checkout of google/tarpc, a Rust async RPC framework, at a pinned commit).
Do not read or write anything under /verif or /repo, and do not touch other /tmp/wt-* directories.  The machine is offline:
always pass `--offline` to cargo and use `--target-dir {wt}/target`.  Build with `cargo test -p tarpc --features full --offline --target-dir {wt}/target ...`
(plugins crate: `-p tarpc-plugins`).  The code contains a few items guarded by `cfg(tarpc_verif)`; ignore them (the flag is off).

## The property (this is what users of tarpc rely on)

**{p['title']}** — {p['statement']}

Quantified over: {p['quantifier']['text']}

Why the existing tests cannot settle it: {p['why_tests_cant']}

Code anchors: {json.dumps(p['anchors'].get('mechanism', []))}

## What to produce

A change to the library source of google/tarpc (under `tarpc/src` or `plugins/src`) that **breaks this property** while
(1) still compiling, and (2) leaving the existing test suite passing (`cargo test --workspace --no-fail-fast --offline --target-dir {wt}/target`;
the test `compile_fail::ui` fails on the unchanged tree already and may be ignored; every other test that passes without your change must pass with it).

The change must look like something a maintainer could plausibly commit (a refactor, an optimisation, a "simplification", a bug fix gone wrong),
be small (a few lines to a few dozen), and must need **something specific to manifest**: a particular interleaving of polls/wake-ups, a fault at a
particular point, a multi-step sequence of operations, an unusual input or configuration value, or two cooperating sites that each look fine alone.
It must NOT be a change that ordinary use (one client making a few calls to a well-behaved server) would expose at once.

Circumstances that earlier changes for this property already relied on - choose a DIFFERENT site and a DIFFERENT mechanism from all of these:
""" + "".join(f"- {x}\n" for x in ps) + f"""
A great many things have been tried already, so look for the parts of the behaviour behind the statement that nobody has touched yet:
read every sentence and every quantifier of the statement, and every code path that contributes to it (helper modules, trait default
methods, `Drop` impls, `Clone` impls, configuration structs and their defaults, type conversions, error conversions, log statements,
the public entry points built on top of the core such as `Channel::execute`, `Requests::execute`, `server::incoming::Incoming`,
`spawn_incoming`, `NewClient::spawn`, `client::stub::*`, `serde_transport::tcp`/`unix`, `transport::channel`), and the interaction with
the other features of the library: limits, deadlines, cancellation, tracing subscribers (none / fmt at any level / OpenTelemetry), codecs,
in-memory vs. socket transports, cloned handles, drop order, default vs. extreme field values, numeric limits of ids and durations,
scale beyond internal constants (of tarpc and of the runtime underneath it), the very first poll of a task vs. later ones.

Also write a **demonstration**: one new integration test file `tarpc/tests/seeded{rnd}_c{n}.rs` (or `plugins/tests/seeded{rnd}_c{n}.rs` for macro changes)
containing test(s) that FAIL with your change and PASS without it, deterministic (no reliance on real-time races; if time matters use
`tokio::time::pause`/`advance` or hand-polling with `futures::task::noop_waker`/custom wakers; hand-written Sink+Stream transports are fine).
The demonstration may only use the public API of tarpc (features = full) and the dev-dependencies already in tarpc/Cargo.toml.

## Deliverables (all inside `{wt}`)

1. The change applied to the working tree, and saved as `{wt}/patch.diff` produced by `git diff -- tarpc/src plugins/src > patch.diff`
   (only library source files; the demonstration file is NOT part of patch.diff).
2. The demonstration test file.
3. `{wt}/NOTES.md`: which sentence of the property breaks, the exact circumstances needed to manifest, and the commands you ran with their outcome:
   demonstration with the change (fails), demonstration with `git apply -R patch.diff` (passes; re-apply afterwards), full suite with the change
   but without counting the demonstration (passes except compile_fail::ui).

Verify all three yourself before finishing; leave the change applied.  Your final message should summarise the change in 5-10 lines.
"""
    open(wt + "/TASK.md", "w").write(t)
    print(wt)
