#!/bin/bash
# seeded_confirm.sh <ID>: confirm a sub-agent's seeded change in its scratch worktree /tmp/wt-<ID>:
#  demo fails with the change, passes without it, and the repository's suite still passes with it.
ID=$1; WT=/tmp/wt-$ID; idl=$(echo $ID | tr 'A-Z' 'a-z'); OUT=/tmp/confirm-$ID.txt
cd $WT || exit 2
{
echo "== demo WITH change"
cargo test -p tarpc --features full --test seeded_$idl --offline --target-dir $WT/target 2>&1 | grep -E "^test |^test result" | tail -5
echo "== demo WITHOUT change"
git apply -R patch.diff
cargo test -p tarpc --features full --test seeded_$idl --offline --target-dir $WT/target 2>&1 | grep -E "^test |^test result" | tail -5
git apply patch.diff
echo "== suite WITH change"
cargo test --workspace --no-fail-fast --offline --target-dir $WT/target 2>&1 | grep -E "^test result|FAILED|failed" | sort | uniq -c
} > $OUT 2>&1
echo done $ID
