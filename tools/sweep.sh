#!/bin/bash
# sweep.sh <seed> [<PROP>...]: run the quick tier of every (or the given) property with VERIF_SEED=<seed>; one line per property.
# Used to look for seed-dependent alarms on the unchanged tree (run it from a `vp run` snapshot so it does not disturb /verif).
SEED=$1; shift
PROPS=${@:-C01 C02 C03 C04 C05 C06 C07 C08 C09 C10 C11 C12 C13 C14 C15 C16 C17 C18 C19 C20}
cd "$(dirname "$0")/.."
for P in $PROPS; do
  VERIF_SEED=$SEED ./check $P quick > .work-sweep-$SEED-$P.txt 2>&1; rc=$?
  echo "seed=$SEED $P exit=$rc $(grep -E '^\[C[0-9]+\] quick' .work-sweep-$SEED-$P.txt | tail -1)"
  grep -E "^VIOLATION|violated in|tool error" .work-sweep-$SEED-$P.txt | head -5
done
