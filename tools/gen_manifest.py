#!/usr/bin/env python3
"""Regenerates MANIFEST.json from tools/props.py (claimed checks) and the not-yet-claimed list."""
import json, os, sys, subprocess
sys.path.insert(0, os.path.dirname(os.path.abspath(__file__)))
from props import PROPS, MANIFEST_TEXT, NOT_APPLICABLE

ROOT = os.path.dirname(os.path.dirname(os.path.abspath(__file__)))
hooks = subprocess.run(["git", "-C", "/repo", "log", "--format=%H %s"], stdout=subprocess.PIPE, text=True).stdout
hook_commits = [l.split()[0] for l in hooks.splitlines() if "verif hook" in l]
all_ids = [json.loads(l)["id"] for l in open(os.path.join(ROOT, "properties.jsonl"))]
checks = []
for pid in all_ids:
    if pid not in PROPS:
        continue
    t = MANIFEST_TEXT[pid]
    checks.append(dict(
        property_id=pid,
        quick_cmd="./check %s quick" % pid,
        thorough_cmd="./check %s thorough" % pid,
        evidence_file="evidence/%s.json" % pid,
        replay_cmd_template="./check --replay {path}",
        engine="tlc+vh",
        level_claimed=dict(category=PROPS[pid]["level"], text=t["text"], design_ref=t["design_ref"]),
        level_note=t["note"],
        technique=t["technique"],
    ))
na = [dict(property_id=p, reason=NOT_APPLICABLE.get(p, "check not built yet in this round; see DESIGN.md section 6 for the planned TLA+ model and binding"))
      for p in all_ids if p not in PROPS]
m = dict(
    version=1,
    setup_cmd="./check --setup",
    hooks=dict(
        guard="tarpc_verif",
        enable="RUSTFLAGS/--cfg tarpc_verif via /verif/harness/.cargo/config.toml (rustflags = [\"--cfg\",\"tarpc_verif\"])",
        baseline_off_cmd="cd /repo && cargo test --workspace --no-fail-fast --offline",
        source_commits=hook_commits,
        add_only=True,
    ),
    engines=[dict(name="tlc+vh", path="tools/check.py",
                  serves_properties=[c["property_id"] for c in checks],
                  kind_free_text="TLA+ specifications (spec/*.tla) model-checked by TLC; TLC-exported schedules replayed by the Rust harness (harness/) against /repo; recorded traces validated by TLC against the observer specifications")],
    checks=checks,
    not_applicable=na,
    notes="Verdicts come only from TLC evaluating observer invariants on traces of the real code; see DESIGN.md.",
)
json.dump(m, open(os.path.join(ROOT, "MANIFEST.json"), "w"), indent=1)
print("claimed:", [c["property_id"] for c in checks])
