#!/bin/bash
# seeded_confirm3.sh <ID> <worktree> <demo test name>: confirm a sub-agent's seeded change in its scratch worktree:
#  demo fails with the change, passes without it, and the repository's suite still passes with it.
ID=$1; WT=$2; DEMO=$3; OUT=/tmp/confirm-$ID.txt
cd $WT || exit 2
{
echo "== demo WITH change"
cargo test -p tarpc --features full --test $DEMO --offline --target-dir $WT/target 2>&1 | grep -E "^test |^test result" | tail -5
echo "== demo WITHOUT change"
git apply -R patch.diff
cargo test -p tarpc --features full --test $DEMO --offline --target-dir $WT/target 2>&1 | grep -E "^test |^test result" | tail -5
git apply patch.diff
echo "== suite WITH change"
mv tarpc/tests/$DEMO.rs /tmp/$DEMO.rs.keep
cargo test --workspace --no-fail-fast --offline --target-dir $WT/target 2>&1 | grep -E "^test result|FAILED|failed" | sort | uniq -c
mv /tmp/$DEMO.rs.keep tarpc/tests/$DEMO.rs
} > $OUT 2>&1
echo done $ID
