"""C17: turns service shapes enumerated by Glue.tla into real #[tarpc::service] definitions, compiles and
runs the accepted ones (client -> generated glue -> implementor) and compile-checks the rejected ones."""
import json
import os
import re
import shutil
import subprocess

import common as C

GLUE = os.path.join(C.ROOT, "glue")
GTARGET = os.path.join(C._SCRATCH, "glue-target") if C._SCRATCH else os.path.join(GLUE, "target")
GT = ["--target-dir", GTARGET] if C._SCRATCH else []


def ident(m):
    n = "".join(m["name"])
    return ("r#" + n) if m.get("raw") else n


ATTR = {"none": "#[tarpc::service]", "derive": "#[tarpc::service(derive = [Clone, PartialEq])]",
        "serde_false": "#[tarpc::service(derive_serde = false)]",
        "both": "#[tarpc::service(derive = [Clone], derive_serde = false)]",
        "twice": "#[tarpc::service(derive = [Clone], derive = [PartialEq])]"}


def arg_names(m):
    return ["ctx"] if m["argty"] == "ctx" else ["a%d" % i for i in range(m["nargs"])]


def arg_list(m):
    """argument list as written in the trait (rejected shapes may use forms the macro refuses)"""
    if m["argty"] == "pattern":
        return "(a0, a1): (i32, i32)"
    if m["argty"] == "selfarg":
        return "self, a0: i32"
    return ", ".join("%s: %s" % (n, t) for n, t in zip(arg_names(m), arg_types(m)))


def arg_types(m):
    if m["argty"] == "ctx":
        return ["tarpc::context::Context"]
    if m["argty"] == "diff":
        return ["i32", "String"][: m["nargs"]] if m["nargs"] <= 2 else ["i32", "String", "i32"]
    return ["i32"] * m["nargs"]


def ret_type(m):
    return {"unit": "()", "int": "i32", "str": "String"}[m["ret"]]


GATE = {"none": "", "on": "#[cfg(all())] ", "off": "#[cfg(any())] "}


def gate(m):
    return GATE[m.get("gate", "none")]


def gen_service(k, methods, attr="none"):
    """Rust module for accepted service k."""
    lines = ["mod s%d {" % k, "    use super::*;", "    " + ATTR[attr], "    pub trait Svc%d {" % k]
    for m in methods:
        args = ", ".join("a%d: %s" % (i, t) for i, t in enumerate(arg_types(m)))
        ret = "" if m["ret"] == "unit" else " -> %s" % ret_type(m)
        lines.append("        %sasync fn %s(%s)%s;" % (gate(m), ident(m), args, ret))
    lines += ["    }", "    #[derive(Clone)]", "    pub struct Imp;", "    impl Svc%d for Imp {" % k]
    for j, m in enumerate(methods):
        tys = arg_types(m)
        args = "".join(", a%d: %s" % (i, t) for i, t in enumerate(tys))
        dbg = "format!(\"{:?}\", (%s))" % "".join("&a%d, " % i for i in range(len(tys))) if tys else "\"()\".to_string()"
        if m["ret"] == "unit":
            val = "()"
        elif m["ret"] == "int":
            val = "%d%s" % (1000 * (j + 1), "".join(" + a%d" % i for i, t in enumerate(tys) if t == "i32"))
        else:
            val = "format!(\"m%d:{}\", %s)" % (j, dbg)
        lines.append("        %sasync fn %s(self, ctx: tarpc::context::Context%s) -> %s {" % (gate(m), ident(m), args, ret_type(m)))
        lines.append("            let args = %s;" % dbg)
        lines.append("            let ret: %s = %s;" % (ret_type(m), val))
        lines.append("            emit(\"ImplCall\", json!({\"svc\": %d, \"m\": \"%s\", \"args\": args, \"dl\": dl_of(&ctx), \"tr\": tr_of(&ctx), \"ret\": format!(\"{:?}\", ret)}));"
                     % (k, "".join(m["name"])))
        lines.append("            ret")
        lines.append("        }")
    # the transport between the generated client and the generated serve glue: in memory, or (when the request / response types
    # are serde types, i.e. the default derives) the serde transport with JSON or bincode over an in-process duplex pipe
    tmode = ["mem", "json", "bincode"][k % 3] if attr == "none" else "mem"
    if tmode == "mem":
        mk = ["        let (tx, rx) = tarpc::transport::channel::unbounded();"]
    else:
        codec = "Json" if tmode == "json" else "Bincode"
        mk = ["        let (a, b) = tokio::io::duplex(1 << 16);",
              "        let tx = tarpc::serde_transport::new(Framed::new(a, LengthDelimitedCodec::new()), %s::default());" % codec,
              "        let rx = tarpc::serde_transport::new(Framed::new(b, LengthDelimitedCodec::new()), %s::default());" % codec]
    lines += ["    }", "    pub async fn run() {"] + mk + [
              "        let server = BaseChannel::with_defaults(rx);",
              "        tokio::spawn(server.execute(Imp.serve()).for_each(|f| async move { tokio::spawn(f); }));",
              "        let client = Svc%dClient::new(tarpc::client::Config::default(), tx).spawn();" % k]
    for j, m in enumerate(methods):
        if m.get("gate") == "off":
            continue  # the rpc does not exist
        tys = arg_types(m)
        vals = []
        for i, t in enumerate(tys):
            v = 10 * (j + 1) + i + 1
            vals.append(str(v) if t == "i32" else "\"s%d\".to_string()" % v)
        dbg = "format!(\"{:?}\", (%s))" % "".join("&(%s), " % v for v in vals) if tys else "\"()\".to_string()"
        fields = ", ".join("a%d: %s" % (i, v) for i, v in enumerate(vals))
        variant = "".join(m["variant"])
        name = "".join(m["name"])
        lines.append("        {")
        lines.append("            let mut ctx = tarpc::context::current();")
        lines.append("            ctx.deadline = base() + std::time::Duration::from_secs(%d);" % (100 + 7 * j + k % 5))
        lines.append("            ctx.trace_context = tarpc::trace::Context { trace_id: tarpc::trace::TraceId::from((%du128 << 64) | %du128), "
                     "span_id: tarpc::trace::SpanId::from(9u64), sampling_decision: tarpc::trace::SamplingDecision::%s };" % (k + 1000, j + 1, "Sampled" if (j + k) % 2 == 0 else "Unsampled"))
        lines.append("            emit(\"ClientCall\", json!({\"svc\": %d, \"m\": \"%s\", \"args\": %s, \"dl\": dl_of(&ctx), \"tr\": tr_of(&ctx)}));" % (k, name, dbg))
        lines.append("            let r = client.%s(ctx%s).await;" % (ident(m), "".join(", " + v for v in vals)))
        lines.append("            emit(\"ClientResult\", json!({\"svc\": %d, \"m\": \"%s\", \"res\": format!(\"{:?}\", r.map_err(|e| e.to_string()))}));" % (k, name))
        lines.append("            let req = Svc%dRequest::%s { %s };" % (k, variant, fields))
        lines.append("            emit(\"Name\", json!({\"svc\": %d, \"m\": \"%s\", \"raw\": %s, \"name\": tarpc::RequestName::name(&req)}));"
                     % (k, name, "true" if m.get("raw") else "false"))
        lines.append("        }")
    # C16: a peer that answers a request with a well-formed response of another rpc's type must not crash the caller
    present = [m for m in methods if m.get("gate") != "off"]
    if len(present) >= 2:
        dflt = {"unit": "()", "int": "0", "str": "String::new()"}
        m0, m1 = present[0], present[1]
        v0, v1 = "".join(m0["variant"]), "".join(m1["variant"])
        tys = arg_types(m0)
        vals = [("1" if t == "i32" else "\"x\".to_string()") for t in tys]
        lines += [
            "        {",
            "            let (tx, rx) = tarpc::transport::channel::unbounded();",
            "            let server = BaseChannel::with_defaults(rx);",
            "            tokio::spawn(server.execute(tarpc::server::serve(|_ctx, req: Svc%dRequest| async move {" % k,
            "                Ok::<_, tarpc::ServerError>(match req { Svc%dRequest::%s { .. } => Svc%dResponse::%s(%s), _ => Svc%dResponse::%s(%s) })"
            % (k, v0, k, v1, dflt[m1["ret"]], k, v0, dflt[m0["ret"]]),
            "            })).for_each(|f| async move { tokio::spawn(f); }));",
            "            let client = Svc%dClient::new(tarpc::client::Config::default(), tx).spawn();" % k,
            "            let h = tokio::spawn(async move { client.%s(tarpc::context::current()%s).await.map(|_| ()).map_err(|e| e.to_string()) });"
            % (ident(m0), "".join(", " + v for v in vals)),
            "            let r = h.await;",
            "            let panicked = r.as_ref().err().map(|e| e.is_panic()).unwrap_or(false);",
            "            emit(\"WrongVariant\", json!({\"svc\": %d, \"m\": \"%s\", \"panicked\": panicked, \"res\": format!(\"{:?}\", r.ok())}));"
            % (k, "".join(m0["name"])),
            "        }",
        ]
    lines += ["    }", "}"]
    return "\n".join(lines)


MAIN_HEAD = r'''// generated by /verif/tools/glue.py -- do not edit
#![allow(non_camel_case_types, non_snake_case, unused_imports, dead_code, deprecated, clippy::all)]
use futures::prelude::*;
use serde_json::json;
use std::sync::atomic::{AtomicU64, Ordering};
use tarpc::server::{BaseChannel, Channel};
use tarpc::tokio_serde::formats::{Bincode, Json};
use tarpc::tokio_util::codec::{Framed, LengthDelimitedCodec};

static SEQ: AtomicU64 = AtomicU64::new(0);
static SCN: AtomicU64 = AtomicU64::new(0);
static BASE: std::sync::OnceLock<std::time::Instant> = std::sync::OnceLock::new();
fn base() -> std::time::Instant { *BASE.get_or_init(std::time::Instant::now) }
fn tr_of(ctx: &tarpc::context::Context) -> String {
    format!("{:x}/{}", u128::from(ctx.trace_context.trace_id), ctx.trace_context.sampling_decision == tarpc::trace::SamplingDecision::Sampled)
}
fn dl_of(ctx: &tarpc::context::Context) -> u64 { (ctx.deadline.duration_since(base()).as_millis() as u64 + 500) / 1000 }
fn emit(ev: &str, mut v: serde_json::Value) {
    let m = v.as_object_mut().unwrap();
    m.insert("ev".into(), json!(ev));
    m.insert("seq".into(), json!(SEQ.fetch_add(1, Ordering::SeqCst) + 1));
    m.insert("scn".into(), json!(SCN.load(Ordering::SeqCst)));
    m.insert("t".into(), json!(0));
    println!("{}", v);
}
'''


def gen_main(accepted):
    parts = [MAIN_HEAD]
    for k, sc in accepted:
        parts.append(gen_service(k, sc["cfg"]["methods"], sc["cfg"].get("attr", "none")))
    parts.append("#[tokio::main(flavor = \"current_thread\")]\nasync fn main() {\n    base();")
    for k, sc in accepted:
        meths = [{"name": "".join(m["name"]), "raw": bool(m.get("raw"))} for m in sc["cfg"]["methods"] if m.get("gate") != "off"]
        parts.append("    SCN.store(%d, Ordering::SeqCst);" % sc["scn"])
        parts.append("    emit(\"Reset\", json!({\"id\": %s, \"svc\": %d, \"svcname\": \"Svc%d\", \"accepted\": true, \"methods\": %s}));"
                     % (json.dumps(sc["id"]), k, k, "json!(%s)" % json.dumps(meths)))
        parts.append("    s%d::run().await;" % k)
        parts.append("    emit(\"EndScenario\", json!({}));")
    parts.append("}")
    return "\n".join(parts) + "\n"


def gen_rejected(k, methods, attr="none"):
    lines = ["#![allow(non_camel_case_types, non_snake_case, dead_code, deprecated)]", ATTR[attr], "pub trait Rej%d {" % k]
    for m in methods:
        args = arg_list(m)
        ret = "" if m["ret"] == "unit" else " -> %s" % ret_type(m)
        lines.append("    %sasync fn %s(%s)%s;" % (gate(m), ident(m), args, ret))
    lines += ["}", "fn main() {}"]
    return "\n".join(lines) + "\n"


def run_glue(wd, scheds, seed, tier):
    """scheds: list of dict(id, cfg={methods, accepted}) -> (trace path, report dict)."""
    for i, s in enumerate(scheds):
        s["scn"] = i + 1
    accepted = [(i + 1, s) for i, s in enumerate(scheds) if s["cfg"]["accepted"]]
    rejected = [(i + 1, s) for i, s in enumerate(scheds) if not s["cfg"]["accepted"]]
    src = os.path.join(GLUE, "src")
    shutil.rmtree(os.path.join(src, "bin"), ignore_errors=True)
    os.makedirs(os.path.join(src, "bin"), exist_ok=True)
    with open(os.path.join(src, "main.rs"), "w") as f:
        f.write(gen_main(accepted))
    for k, s in rejected:
        with open(os.path.join(src, "bin", "rej%d.rs" % k), "w") as f:
            f.write(gen_rejected(k, s["cfg"]["methods"], s["cfg"].get("attr", "none")))
    env = dict(os.environ, CARGO_NET_OFFLINE="true")
    trace = os.path.join(wd, "glue-run.ndjson")
    lines = []
    # accepted: build + run.  A shape the specification predicts as accepted but that does not compile is taken out (and
    # noted as drift of the prediction, not as a violation: nothing was miscompiled) so that the others are still executed.
    uncompilable = []
    for attempt in range(4):
        p = subprocess.run(["cargo", "build", "--offline", "--bin", "glue", "--message-format", "short"] + C.repo_override() + GT, cwd=GLUE, env=env,
                           stdout=subprocess.PIPE, stderr=subprocess.STDOUT, text=True)
        if p.returncode == 0:
            break
        text = open(os.path.join(src, "main.rs")).read().splitlines()
        starts = [(i + 1, int(m.group(1))) for i, l in enumerate(text) for m in [re.match(r"mod s(\d+) \{", l)] if m]
        bad_mods = set()
        for m in re.finditer(r"src/main\.rs:(\d+):\d+: error", p.stdout):
            ln = int(m.group(1))
            owner = [k for (st, k) in starts if st <= ln]
            if owner:
                bad_mods.add(owner[-1])
        if not bad_mods or attempt == 3:
            C.log(p.stdout[-3000:])
            raise C.ToolError("generated glue program (accepted shapes) failed to compile")
        uncompilable += [sc for k, sc in accepted if k in bad_mods]
        accepted = [(k, sc) for k, sc in accepted if k not in bad_mods]
        with open(os.path.join(src, "main.rs"), "w") as f:
            f.write(gen_main(accepted))
    r = subprocess.run([os.path.join(GTARGET, "debug", "glue")], stdout=subprocess.PIPE, stderr=subprocess.PIPE,
                       text=True, timeout=600)
    if r.returncode != 0:
        C.log(r.stderr[-2000:])
        raise C.ToolError("generated glue program failed at run time")
    lines += [l for l in r.stdout.splitlines() if l.startswith("{")]
    # rejected: each must fail to compile
    if rejected:
        p = subprocess.run(["cargo", "check", "--offline", "--bins", "--keep-going", "--message-format", "short"] + C.repo_override() + GT, cwd=GLUE, env=env,
                           stdout=subprocess.PIPE, stderr=subprocess.STDOUT, text=True)
        out = p.stdout
        seq = 10 ** 6
        for k, s in rejected:
            failed = bool(re.search(r'could not compile `glue` \(bin "rej%d"\)' % k, out)) or bool(re.search(r"src/bin/rej%d\.rs:\d+:\d+: error" % k, out))
            msg = ""
            m = re.search(r"src/bin/rej%d\.rs:\d+:\d+: error[^\n]*" % k, out)
            if m:
                msg = m.group(0)[-160:]
            meths = [{"name": "".join(x["name"]), "raw": bool(x.get("raw"))} for x in s["cfg"]["methods"]]
            for ev in (dict(ev="Reset", id=s["id"], svc=k, svcname="Rej%d" % k, accepted=False, methods=meths),
                       dict(ev="CompileResult", svc=k, ok=not failed, msg=msg),
                       dict(ev="EndScenario")):
                seq += 1
                ev.update(scn=s["scn"], seq=seq, t=0)
                lines.append(json.dumps(ev))
    with open(trace, "w") as f:
        f.write("\n".join(lines) + "\n")
    index = [dict(scn=s["scn"], id=s["id"], cfg=s["cfg"], steps=[]) for s in scheds]
    mism = [dict(id=s["id"], at=dict(step="compile"), what="predicted accepted, does not compile") for s in uncompilable]
    return trace, dict(family="glue", executed=len(scheds) - len(uncompilable), mismatches=mism, index=index)
