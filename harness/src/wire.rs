//! Family `wire`: the shipped transports (serde framed transport with JSON / bincode over a scripted
//! byte pipe, in-memory bounded / unbounded channels), the wire forms of the protocol messages, and
//! peer-supplied input (properties C15, C16, C07; specification spec/Wire.tla).
//!
//! cfg.kind:
//!   "rt"      {codec, dir, msgs:[class..], rscript:[n..], wscript:[n..], transit}   write a message
//!             sequence at one end, read it at the other through chunked/pending reads and writes
//!   "kinds"   {codec}                     every io::ErrorKind through ServerError
//!   "omit"    {}                          JSON requests without deadline / cancel without trace context
//!   "garbage" {codec, dir, seed, n}       random and mutated frames into the decoders
//!   "live"    {codec, sub, items:[..]}    a live server channel (BaseChannel -> Requests) over the
//!                                         serde transport fed with boundary-valued and malformed
//!                                         traffic, followed by a probe request that must be served
//!   "clientdl" {dl_class}                 a caller-chosen extreme deadline through the client dispatch

use crate::{
    exec::{self, emit, Clock},
    Args, Sched,
};
use bytes::{BufMut, BytesMut};
use futures::{task::Context, Future, Sink, Stream};
use rand::{rngs::StdRng, Rng, SeedableRng};
use serde_json::{json, Value};
use std::{
    cell::RefCell,
    collections::VecDeque,
    io,
    pin::Pin,
    rc::Rc,
    task::{Poll, Waker},
    time::Duration,
};
use tarpc::{
    context,
    server::{BaseChannel, Channel},
    trace, ClientMessage, Request, Response, ServerError,
};
use tokio::io::{AsyncRead, AsyncWrite, ReadBuf};
use tokio_serde::formats::{Bincode, Json};
use tokio_util::codec::{Framed, LengthDelimitedCodec};

// ------------------------------------------------------------------------------------ byte pipe
#[derive(Default)]
pub struct PipeSt {
    buf: VecDeque<u8>,
    closed: bool,
    rd_waker: Option<Waker>,
    /// chunk scripts: n > 0 = transfer at most n bytes, 0 = return Pending once (self-waking)
    rscript: Vec<usize>,
    rpos: usize,
    wscript: Vec<usize>,
    wpos: usize,
    pub written: Vec<u8>,
    /// a byte stream that buffers internally (BufWriter / TLS / compression): poll_write fills `hold`,
    /// only poll_flush (chunk script fscript) passes the bytes on
    iobuf: bool,
    hold: VecDeque<u8>,
    fscript: Vec<usize>,
    fpos: usize,
}
type PipeRef = Rc<RefCell<PipeSt>>;

pub struct End {
    rx: PipeRef,
    tx: PipeRef,
}

fn next_script(script: &[usize], pos: &mut usize) -> usize {
    if script.is_empty() {
        return usize::MAX;
    }
    let v = script[*pos % script.len()];
    *pos += 1;
    v
}

impl AsyncRead for End {
    fn poll_read(self: Pin<&mut Self>, cx: &mut Context<'_>, buf: &mut ReadBuf<'_>) -> Poll<io::Result<()>> {
        let mut p = self.rx.borrow_mut();
        if p.buf.is_empty() {
            if p.closed {
                return Poll::Ready(Ok(()));
            }
            p.rd_waker = Some(cx.waker().clone());
            return Poll::Pending;
        }
        let script = p.rscript.clone();
        let mut pos = p.rpos;
        let n = next_script(&script, &mut pos);
        p.rpos = pos;
        if n == 0 {
            cx.waker().wake_by_ref();
            return Poll::Pending;
        }
        let k = n.min(p.buf.len()).min(buf.remaining());
        for _ in 0..k {
            let b = p.buf.pop_front().unwrap();
            buf.put_slice(&[b]);
        }
        Poll::Ready(Ok(()))
    }
}

impl AsyncWrite for End {
    fn poll_write(self: Pin<&mut Self>, cx: &mut Context<'_>, data: &[u8]) -> Poll<io::Result<usize>> {
        let mut p = self.tx.borrow_mut();
        if p.closed {
            return Poll::Ready(Err(io::Error::new(io::ErrorKind::BrokenPipe, "closed")));
        }
        let script = p.wscript.clone();
        let mut pos = p.wpos;
        let n = next_script(&script, &mut pos);
        p.wpos = pos;
        if n == 0 {
            cx.waker().wake_by_ref();
            return Poll::Pending;
        }
        let k = n.min(data.len());
        p.written.extend(&data[..k]);
        if p.iobuf {
            p.hold.extend(&data[..k]);
            return Poll::Ready(Ok(k));
        }
        p.buf.extend(&data[..k]);
        if let Some(w) = p.rd_waker.take() {
            w.wake();
        }
        Poll::Ready(Ok(k))
    }
    fn poll_flush(self: Pin<&mut Self>, cx: &mut Context<'_>) -> Poll<io::Result<()>> {
        let mut p = self.tx.borrow_mut();
        loop {
            if p.hold.is_empty() {
                return Poll::Ready(Ok(()));
            }
            let script = p.fscript.clone();
            let mut pos = p.fpos;
            let n = next_script(&script, &mut pos);
            p.fpos = pos;
            if n == 0 {
                cx.waker().wake_by_ref();
                return Poll::Pending;
            }
            let k = n.min(p.hold.len());
            for _ in 0..k {
                let b = p.hold.pop_front().unwrap();
                p.buf.push_back(b);
            }
            if let Some(w) = p.rd_waker.take() {
                w.wake();
            }
        }
    }
    fn poll_shutdown(self: Pin<&mut Self>, _cx: &mut Context<'_>) -> Poll<io::Result<()>> {
        let mut p = self.tx.borrow_mut();
        // a buffering stream flushes what it holds before shutting down
        while let Some(b) = p.hold.pop_front() {
            p.buf.push_back(b);
        }
        p.closed = true;
        if let Some(w) = p.rd_waker.take() {
            w.wake();
        }
        Poll::Ready(Ok(()))
    }
}

impl Drop for End {
    fn drop(&mut self) {
        let mut p = self.tx.borrow_mut();
        p.closed = true;
        if let Some(w) = p.rd_waker.take() {
            w.wake();
        }
    }
}

fn duplex(rscript: Vec<usize>, wscript: Vec<usize>) -> (End, End, PipeRef, PipeRef) {
    let ab = Rc::new(RefCell::new(PipeSt { rscript: rscript.clone(), wscript: wscript.clone(), ..Default::default() }));
    let ba = Rc::new(RefCell::new(PipeSt { rscript, wscript, ..Default::default() }));
    (
        End { rx: ba.clone(), tx: ab.clone() },
        End { rx: ab.clone(), tx: ba.clone() },
        ab,
        ba,
    )
}

// ------------------------------------------------------------------------------------ messages
fn ms_of(clock: &Clock, i: std::time::Instant) -> i64 {
    clock.ms_of(i)
}

fn big_body(n: usize) -> String {
    "x".repeat(n)
}

fn kind_by_name(name: &str) -> io::ErrorKind {
    use io::ErrorKind::*;
    match name {
        "NotFound" => NotFound,
        "PermissionDenied" => PermissionDenied,
        "ConnectionRefused" => ConnectionRefused,
        "ConnectionReset" => ConnectionReset,
        "ConnectionAborted" => ConnectionAborted,
        "NotConnected" => NotConnected,
        "AddrInUse" => AddrInUse,
        "AddrNotAvailable" => AddrNotAvailable,
        "BrokenPipe" => BrokenPipe,
        "AlreadyExists" => AlreadyExists,
        "WouldBlock" => WouldBlock,
        "InvalidInput" => InvalidInput,
        "InvalidData" => InvalidData,
        "TimedOut" => TimedOut,
        "WriteZero" => WriteZero,
        "Interrupted" => Interrupted,
        "Other" => Other,
        "UnexpectedEof" => UnexpectedEof,
        "Unsupported" => Unsupported,
        "OutOfMemory" => OutOfMemory,
        "HostUnreachable" => HostUnreachable,
        "NetworkUnreachable" => NetworkUnreachable,
        "NetworkDown" => NetworkDown,
        "NotADirectory" => NotADirectory,
        "IsADirectory" => IsADirectory,
        "DirectoryNotEmpty" => DirectoryNotEmpty,
        "ReadOnlyFilesystem" => ReadOnlyFilesystem,
        "StaleNetworkFileHandle" => StaleNetworkFileHandle,
        "StorageFull" => StorageFull,
        "NotSeekable" => NotSeekable,
        "QuotaExceeded" => QuotaExceeded,
        "FileTooLarge" => FileTooLarge,
        "ResourceBusy" => ResourceBusy,
        "ExecutableFileBusy" => ExecutableFileBusy,
        "Deadlock" => Deadlock,
        "CrossesDevices" => CrossesDevices,
        "TooManyLinks" => TooManyLinks,
        "InvalidFilename" => InvalidFilename,
        "ArgumentListTooLong" => ArgumentListTooLong,
        _ => Other,
    }
}

pub const PORTABLE: [&str; 18] = [
    "NotFound", "PermissionDenied", "ConnectionRefused", "ConnectionReset", "ConnectionAborted",
    "NotConnected", "AddrInUse", "AddrNotAvailable", "BrokenPipe", "AlreadyExists", "WouldBlock",
    "InvalidInput", "InvalidData", "TimedOut", "WriteZero", "Interrupted", "Other", "UnexpectedEof",
];
pub const NONPORTABLE: [&str; 21] = [
    "Unsupported", "OutOfMemory", "HostUnreachable", "NetworkUnreachable", "NetworkDown", "NotADirectory",
    "IsADirectory", "DirectoryNotEmpty", "ReadOnlyFilesystem", "StaleNetworkFileHandle", "StorageFull",
    "NotSeekable", "QuotaExceeded", "FileTooLarge", "ResourceBusy", "ExecutableFileBusy", "Deadlock",
    "CrossesDevices", "TooManyLinks", "InvalidFilename", "ArgumentListTooLong",
];

/// Message classes (the concretisation of Wire.tla's classes).
pub fn client_msg(clock: &Clock, class: &str, i: u64) -> ClientMessage<String> {
    let mut ctx = context::current();
    ctx.deadline = clock.std_at(clock.now_ms() as i64 + 5_000);
    ctx.trace_context = trace::Context {
        trace_id: trace::TraceId::from(0x1234_5678_9abc_def0_1122_3344_5566_7788u128 ^ i as u128),
        span_id: trace::SpanId::from(0xdead_beef_0000_0000u64 | i),
        sampling_decision: if i % 2 == 0 { trace::SamplingDecision::Sampled } else { trace::SamplingDecision::Unsampled },
    };
    let (id, body): (u64, String) = match class {
        "req" => (i, format!("body{}", i)),
        "req-id0" => (0, "".to_string()),
        "req-idmax" => (u64::MAX, "m".to_string()),
        "req-id32" => (1u64 << 32, "m".to_string()),
        "req-empty" => (i, String::new()),
        "req-unicode" => (i, "h\u{e9}llo \u{4e16}\u{754c} \u{1f600} \u{0}\u{7f}\"\\".to_string()),
        "req-large" => (i, big_body(70_000)),
        "req-past" => {
            ctx.deadline = clock.std_at(clock.now_ms() as i64 - 50);
            (i, "past".to_string())
        }
        "req-now" => {
            ctx.deadline = clock.std_at(clock.now_ms() as i64);
            (i, "now".to_string())
        }
        "cancel" => {
            return ClientMessage::Cancel { trace_context: ctx.trace_context, request_id: i };
        }
        "cancel-idmax" => {
            return ClientMessage::Cancel { trace_context: ctx.trace_context, request_id: u64::MAX };
        }
        // messages made of default values only (what an untraced, hand-written or foreign peer sends)
        "cancel-notrace" => {
            return ClientMessage::Cancel { trace_context: trace::Context::default(), request_id: i };
        }
        "cancel-zero" => {
            return ClientMessage::Cancel { trace_context: trace::Context::default(), request_id: 0 };
        }
        "req-notrace" => {
            ctx.trace_context = trace::Context::default();
            (i, format!("body{}", i))
        }
        "req-zero" => {
            ctx.trace_context = trace::Context::default();
            (0, String::new())
        }
        _ => (i, format!("body{}", i)),
    };
    ClientMessage::Request(Request { context: ctx, id, message: body })
}

pub fn response_msg(class: &str, i: u64) -> Response<String> {
    match class {
        "resp" => Response { request_id: i, message: Ok(format!("r{}", i)) },
        "resp-idmax" => Response { request_id: u64::MAX, message: Ok("".to_string()) },
        "resp-unicode" => Response { request_id: i, message: Ok("\u{1f980} r\u{e9}ponse".to_string()) },
        "resp-large" => Response { request_id: i, message: Ok(big_body(70_000)) },
        c if c.starts_with("err:") => Response {
            request_id: i,
            message: Err(ServerError::new(kind_by_name(&c[4..]), format!("detail {}", i))),
        },
        _ => Response { request_id: i, message: Ok(format!("r{}", i)) },
    }
}

pub fn describe_cm(clock: &Clock, m: &ClientMessage<String>) -> Value {
    match m {
        ClientMessage::Request(r) => json!({"kind": "req", "id": format!("{}", r.id),
            "body": if r.message.len() > 64 { format!("len{}", r.message.len()) } else { r.message.clone() },
            "bodylen": r.message.len(),
            "dl": ms_of(clock, r.context.deadline),
            "tr": format!("{:x}", u128::from(r.context.trace_context.trace_id)),
            "span": format!("{:x}", u64::from(r.context.trace_context.span_id)),
            "sampled": r.context.trace_context.sampling_decision == trace::SamplingDecision::Sampled,
            "ekind": ""}),
        ClientMessage::Cancel { trace_context, request_id } => json!({"kind": "cancel", "id": format!("{}", request_id),
            "body": "", "bodylen": 0, "dl": 0,
            "tr": format!("{:x}", u128::from(trace_context.trace_id)),
            "span": format!("{:x}", u64::from(trace_context.span_id)),
            "sampled": trace_context.sampling_decision == trace::SamplingDecision::Sampled, "ekind": ""}),
        _ => json!({"kind": "other"}),
    }
}

pub fn describe_resp(r: &Response<String>) -> Value {
    match &r.message {
        Ok(b) => json!({"kind": "resp", "id": format!("{}", r.request_id),
            "body": if b.len() > 64 { format!("len{}", b.len()) } else { b.clone() }, "bodylen": b.len(),
            "dl": 0, "tr": "", "span": "", "sampled": false, "ekind": ""}),
        Err(e) => json!({"kind": "resp", "id": format!("{}", r.request_id), "body": e.detail, "bodylen": e.detail.len(),
            "dl": 0, "tr": "", "span": "", "sampled": false, "ekind": format!("{:?}", e.kind)}),
    }
}

// The writer must really be dropped for "drop": do the whole round trip in a helper that owns it.
fn round_trip<W, R, SI, I, WE, RE>(
    clock: &Clock,
    writer: Pin<Box<W>>,
    reader: Pin<Box<R>>,
    items: Vec<SI>,
    describe_w: &dyn Fn(&SI) -> Value,
    describe_r: &dyn Fn(&I) -> Value,
    transit_ms: u64,
    close_writer: &str,
) where
    W: Sink<SI, Error = WE> + ?Sized,
    R: Stream<Item = Result<I, RE>> + ?Sized,
    WE: std::fmt::Debug,
    RE: std::fmt::Debug,
{
    let wflag = exec::Flag::new("w", true);
    let rflag = exec::Flag::new("r", true);
    let mut queue: VecDeque<SI> = items.into();
    let mut writer = Some(writer);
    let mut reader = reader;
    let (mut widx, mut ridx) = (0u64, 0u64);
    let mut transit_done = transit_ms == 0;
    let mut flushed_all = false;
    let mut closed_kept = false;
    let mut kept = None;
    let _g = clock.rt.enter();
    for _ in 0..400_000 {
        // ---- writer
        if let Some(w) = writer.as_mut() {
            let waker = wflag.waker();
            let mut cx = Context::from_waker(&waker);
            let mut finished = false;
            if queue.front().is_some() {
                match w.as_mut().poll_ready(&mut cx) {
                    Poll::Ready(Ok(())) => {
                        let item = queue.pop_front().unwrap();
                        let d = describe_w(&item);
                        match w.as_mut().start_send(item) {
                            Ok(()) => {
                                widx += 1;
                                emit("Written", json!({"i": widx, "d": d}));
                            }
                            Err(e) => {
                                emit("WriteErr", json!({"msg": format!("{:?}", e).chars().take(120).collect::<String>()}));
                                finished = true;
                            }
                        }
                    }
                    Poll::Ready(Err(e)) => {
                        emit("WriteErr", json!({"msg": format!("{:?}", e).chars().take(120).collect::<String>()}));
                        finished = true;
                    }
                    Poll::Pending => {}
                }
            } else {
                match w.as_mut().poll_flush(&mut cx) {
                    Poll::Ready(Ok(())) => match close_writer {
                        "close" => {
                            if let Poll::Ready(_) = w.as_mut().poll_close(&mut cx) {
                                finished = true;
                            }
                        }
                        // the sink is closed but the writing end stays alive (half-close): where the medium can signal a
                        // close, the reader must still see the end of the stream
                        "closekeep" => {
                            if let Poll::Ready(_) = w.as_mut().poll_close(&mut cx) {
                                closed_kept = true;
                            }
                        }
                        "keep" => flushed_all = true,
                        _ => finished = true,
                    },
                    Poll::Ready(Err(e)) => {
                        emit("WriteErr", json!({"msg": format!("{:?}", e).chars().take(120).collect::<String>()}));
                        finished = true;
                    }
                    Poll::Pending => {}
                }
            }
            if finished {
                emit("WriterEnd", json!({"how": close_writer, "n": widx}));
                writer = None; // dropped here
            } else if closed_kept {
                emit("WriterEnd", json!({"how": close_writer, "n": widx}));
                kept = writer.take(); // closed, not dropped
            }
        }
        let writer_idle = writer.is_none() || (queue.is_empty() && close_writer == "keep" && flushed_all);
        if !transit_done {
            if writer_idle {
                clock.advance(transit_ms);
                emit("Tick", json!({"d": transit_ms}));
                transit_done = true;
            } else {
                continue;
            }
        }
        // ---- reader
        let waker = rflag.waker();
        let mut cx = Context::from_waker(&waker);
        match exec::catch(|| reader.as_mut().poll_next(&mut cx)) {
            Ok(Poll::Ready(Some(Ok(item)))) => {
                ridx += 1;
                exec::log_set_now(clock.now_ms());
                emit("Read", json!({"i": ridx, "d": describe_r(&item)}));
            }
            Ok(Poll::Ready(Some(Err(e)))) => {
                emit("ReadErr", json!({"msg": format!("{:?}", e).chars().take(120).collect::<String>()}));
                break;
            }
            Ok(Poll::Ready(None)) => {
                emit("Eos", json!({"n": ridx}));
                break;
            }
            Ok(Poll::Pending) => {
                if writer_idle && (close_writer == "keep" || close_writer == "closekeep") && !rflag.is_set() {
                    emit("ReaderIdle", json!({"n": ridx}));
                    break;
                }
                rflag.clear();
            }
            Err(msg) => {
                emit("Panic", json!({"who": "reader", "msg": msg}));
                break;
            }
        }
    }
    drop(kept);
}
fn scripts(cfg: &Value) -> (Vec<usize>, Vec<usize>) {
    let f = |k: &str| -> Vec<usize> {
        cfg.get(k).and_then(|v| v.as_array()).map(|a| a.iter().map(|x| x.as_u64().unwrap_or(1) as usize).collect()).unwrap_or_default()
    };
    (f("rscript"), f("wscript"))
}

fn str_list(cfg: &Value, k: &str) -> Vec<String> {
    cfg.get(k).and_then(|v| v.as_array()).map(|a| a.iter().map(|x| x.as_str().unwrap_or("").to_string()).collect()).unwrap_or_default()
}

fn run_rt(clock: &Clock, cfg: &Value) {
    let codec = cfg["codec"].as_str().unwrap_or("json");
    let dir = cfg["dir"].as_str().unwrap_or("c2s");
    let msgs = str_list(cfg, "msgs");
    let transit = cfg["transit"].as_u64().unwrap_or(0);
    let close = cfg["close"].as_str().unwrap_or("drop");
    let (rs, ws) = scripts(cfg);
    let dcm = |m: &ClientMessage<String>| describe_cm(clock, m);
    let drs = |m: &Response<String>| describe_resp(m);
    macro_rules! serde_rt {
        ($codec_w:expr, $codec_r:expr) => {{
            let (a, b, ab, _ba) = duplex(rs.clone(), ws.clone());
            if cfg.get("iobuf").and_then(|v| v.as_bool()).unwrap_or(false) {
                let mut p = ab.borrow_mut();
                p.iobuf = true;
                p.fscript = cfg.get("fscript").and_then(|v| v.as_array())
                    .map(|a| a.iter().map(|x| x.as_u64().unwrap_or(1) as usize).collect()).unwrap_or_default();
            }
            if dir == "c2s" {
                let items: Vec<ClientMessage<String>> = msgs.iter().enumerate().map(|(i, c)| client_msg(clock, c, i as u64 + 1)).collect();
                let w: tarpc::serde_transport::Transport<End, Response<String>, ClientMessage<String>, _> =
                    tarpc::serde_transport::new(Framed::new(a, LengthDelimitedCodec::new()), $codec_w);
                let r: tarpc::serde_transport::Transport<End, ClientMessage<String>, Response<String>, _> =
                    tarpc::serde_transport::new(Framed::new(b, LengthDelimitedCodec::new()), $codec_r);
                round_trip(clock, Box::pin(w), Box::pin(r), items, &dcm, &dcm, transit, close);
            } else {
                let items: Vec<Response<String>> = msgs.iter().enumerate().map(|(i, c)| response_msg(c, i as u64 + 1)).collect();
                let w: tarpc::serde_transport::Transport<End, ClientMessage<String>, Response<String>, _> =
                    tarpc::serde_transport::new(Framed::new(a, LengthDelimitedCodec::new()), $codec_w);
                let r: tarpc::serde_transport::Transport<End, Response<String>, ClientMessage<String>, _> =
                    tarpc::serde_transport::new(Framed::new(b, LengthDelimitedCodec::new()), $codec_r);
                round_trip(clock, Box::pin(w), Box::pin(r), items, &drs, &drs, transit, close);
            }
        }};
    }
    match codec {
        "json" => serde_rt!(Json::default(), Json::default()),
        "bincode" => serde_rt!(Bincode::default(), Bincode::default()),
        "mem-unbounded" | "mem-bounded" => {
            if dir == "c2s" {
                let items: Vec<ClientMessage<String>> = msgs.iter().enumerate().map(|(i, c)| client_msg(clock, c, i as u64 + 1)).collect();
                if codec == "mem-unbounded" {
                    let (w, r) = tarpc::transport::channel::unbounded::<Response<String>, ClientMessage<String>>();
                    round_trip(clock, Box::pin(w), Box::pin(r), items, &dcm, &dcm, transit, close);
                } else {
                    let cap = cfg["cap"].as_u64().unwrap_or(1) as usize;
                    let (w, r) = tarpc::transport::channel::bounded::<Response<String>, ClientMessage<String>>(cap);
                    round_trip(clock, Box::pin(w), Box::pin(r), items, &dcm, &dcm, transit, close);
                }
            } else {
                let items: Vec<Response<String>> = msgs.iter().enumerate().map(|(i, c)| response_msg(c, i as u64 + 1)).collect();
                if codec == "mem-unbounded" {
                    let (r, w) = tarpc::transport::channel::unbounded::<Response<String>, ClientMessage<String>>();
                    round_trip(clock, Box::pin(w), Box::pin(r), items, &drs, &drs, transit, close);
                } else {
                    let cap = cfg["cap"].as_u64().unwrap_or(1) as usize;
                    let (r, w) = tarpc::transport::channel::bounded::<Response<String>, ClientMessage<String>>(cap);
                    round_trip(clock, Box::pin(w), Box::pin(r), items, &drs, &drs, transit, close);
                }
            }
        }
        _ => {}
    }
}

/// `sock`: the same round trips over the shipped socket transports (`serde_transport::tcp` / `unix`: listen, connect,
/// accept) on the loopback interface / a socket file.  The runtime's clock stays paused (no timers are armed, so the
/// runtime simply waits for I/O), deadlines therefore cross the wire unchanged.  Events are those of `rt`.
fn run_sock(cfg: &Value) {
    use futures::{SinkExt, StreamExt};
    let codec = cfg["codec"].as_str().unwrap_or("json").to_string();
    let dir = cfg["dir"].as_str().unwrap_or("c2s").to_string();
    let medium = cfg["medium"].as_str().unwrap_or("tcp").to_string();
    let close = cfg["close"].as_str().unwrap_or("drop").to_string();
    let msgs = str_list(cfg, "msgs");
    let rt = tokio::runtime::Builder::new_current_thread().enable_all().start_paused(true).build().unwrap();
    let clock = Clock { t0: { let _g = rt.enter(); tokio::time::Instant::now() }, rt };
    let clock = &clock;

    async fn pump<W, R, SI, I, WE, RE>(mut w: W, mut r: R, items: Vec<SI>, dw: &dyn Fn(&SI) -> Value, dr: &dyn Fn(&I) -> Value, close: &str)
    where
        W: Sink<SI, Error = WE> + Unpin,
        R: Stream<Item = Result<I, RE>> + Unpin,
        WE: std::fmt::Debug,
        RE: std::fmt::Debug,
    {
        let n = items.len() as u64;
        let writer = async {
            let mut i = 0u64;
            for it in items {
                let d = dw(&it);
                match w.feed(it).await {
                    Ok(()) => {
                        i += 1;
                        emit("Written", json!({"i": i, "d": d}));
                    }
                    Err(e) => {
                        emit("WriteErr", json!({"msg": format!("{:?}", e).chars().take(120).collect::<String>()}));
                        break;
                    }
                }
                if let Err(e) = w.flush().await {
                    emit("WriteErr", json!({"msg": format!("{:?}", e).chars().take(120).collect::<String>()}));
                    break;
                }
            }
            if close == "close" {
                let _ = w.close().await;
            }
            emit("WriterEnd", json!({"how": close, "n": i.min(n)}));
            drop(w);
        };
        let reader = async {
            let mut k = 0u64;
            loop {
                match r.next().await {
                    Some(Ok(it)) => {
                        k += 1;
                        emit("Read", json!({"i": k, "d": dr(&it)}));
                    }
                    Some(Err(e)) => {
                        emit("ReadErr", json!({"msg": format!("{:?}", e).chars().take(120).collect::<String>()}));
                        break;
                    }
                    None => {
                        emit("Eos", json!({"n": k}));
                        break;
                    }
                }
            }
        };
        futures::join!(writer, reader);
    }

    let framing = cfg["framing"].as_str().unwrap_or("default").to_string();
    let framing_of = |b: &mut tokio_util::codec::length_delimited::Builder| match framing.as_str() {
        "le" => {
            b.little_endian();
        }
        "len2" => {
            b.length_field_length(2);
        }
        "big" => {
            b.max_frame_length(64 << 20);
        }
        _ => {}
    };
    let dcm = |m: &ClientMessage<String>| describe_cm(clock, m);
    let drs = |m: &Response<String>| describe_resp(m);
    let c2s: Vec<ClientMessage<String>> = msgs.iter().enumerate().map(|(i, c)| client_msg(clock, c, i as u64 + 1)).collect();
    let s2c: Vec<Response<String>> = msgs.iter().enumerate().map(|(i, c)| response_msg(c, i as u64 + 1)).collect();
    type CM = ClientMessage<String>;
    type RS = Response<String>;
    macro_rules! go {
        ($m:ident, $addr:expr, $local:expr, $cf:expr) => {{
            clock.rt.block_on(async {
                let mut inc = tarpc::serde_transport::$m::listen::<_, CM, RS, _, _>($addr, $cf).await.expect("listen");
                framing_of(inc.config_mut());
                let target = $local(&inc);
                // the framing both ends agreed on is configured on the connecting side as well
                let mut conn = tarpc::serde_transport::$m::connect::<_, RS, CM, _, _>(target, $cf);
                framing_of(conn.config_mut());
                let client = conn.await.expect("connect");
                let server = inc.next().await.expect("accept").expect("accept ok");
                if dir == "c2s" {
                    pump(client, server, c2s, &dcm, &dcm, &close).await;
                } else {
                    pump(server, client, s2c, &drs, &drs, &close).await;
                }
            })
        }};
    }
    match (medium.as_str(), codec.as_str()) {
        ("tcp", "json") => go!(tcp, "127.0.0.1:0", |i: &tarpc::serde_transport::tcp::Incoming<CM, RS, _, _>| i.local_addr(), Json::default),
        ("tcp", _) => go!(tcp, "127.0.0.1:0", |i: &tarpc::serde_transport::tcp::Incoming<CM, RS, _, _>| i.local_addr(), Bincode::default),
        (_, c) => {
            let path = tarpc::serde_transport::unix::TempPathBuf::with_random("vh_sock");
            let p2 = path.as_ref().to_path_buf();
            if c == "json" {
                go!(unix, &path, |_i: &tarpc::serde_transport::unix::Incoming<CM, RS, _, _>| p2.clone(), Json::default)
            } else {
                go!(unix, &path, |_i: &tarpc::serde_transport::unix::Incoming<CM, RS, _, _>| p2.clone(), Bincode::default)
            }
        }
    }
}

/// `flood`: N consecutive responses for ids nobody asked for, all readable at once, fed to a hand-polled client dispatch in a
/// child process (a stack overflow aborts the process and cannot be caught in-process).
fn run_flood(cfg: &Value) {
    let n = cfg["n"].as_u64().unwrap_or(1_000_000);
    let exe = std::env::current_exe().expect("current exe");
    let out = std::process::Command::new(exe).arg("floodchild").arg("--opt").arg(format!("n={}", n)).output();
    match out {
        Ok(o) => {
            let ok = o.status.success();
            emit("Flood", json!({"n": n, "crashed": !ok, "status": format!("{:?}", o.status.code()),
                                 "served": String::from_utf8_lossy(&o.stdout).contains("SERVED")}));
        }
        Err(e) => emit("Flood", json!({"n": n, "crashed": true, "status": e.to_string(), "served": false})),
    }
}

/// The child of `run_flood`: prints SERVED if, after the flood, a well-formed call still completes.
pub fn flood_child(a: &Args) -> Value {
    use futures::task::noop_waker;
    struct FloodT {
        left: u64,
        pending: VecDeque<Response<String>>,
        sent: Vec<ClientMessage<String>>,
    }
    impl Stream for FloodT {
        type Item = Result<Response<String>, io::Error>;
        fn poll_next(mut self: Pin<&mut Self>, _cx: &mut Context<'_>) -> Poll<Option<Self::Item>> {
            if self.left > 0 {
                self.left -= 1;
                let id = 1_000_000_000 + self.left;
                return Poll::Ready(Some(Ok(Response { request_id: id, message: Ok("stale".to_string()) })));
            }
            match self.pending.pop_front() {
                Some(r) => Poll::Ready(Some(Ok(r))),
                None => Poll::Pending,
            }
        }
    }
    impl Sink<ClientMessage<String>> for FloodT {
        type Error = io::Error;
        fn poll_ready(self: Pin<&mut Self>, _cx: &mut Context<'_>) -> Poll<io::Result<()>> {
            Poll::Ready(Ok(()))
        }
        fn start_send(mut self: Pin<&mut Self>, item: ClientMessage<String>) -> io::Result<()> {
            if let ClientMessage::Request(r) = &item {
                let id = r.id;
                self.pending.push_back(Response { request_id: id, message: Ok("body".to_string()) });
            }
            self.sent.push(item);
            Ok(())
        }
        fn poll_flush(self: Pin<&mut Self>, _cx: &mut Context<'_>) -> Poll<io::Result<()>> {
            Poll::Ready(Ok(()))
        }
        fn poll_close(self: Pin<&mut Self>, _cx: &mut Context<'_>) -> Poll<io::Result<()>> {
            Poll::Ready(Ok(()))
        }
    }
    let n = a.opt_u64("n", 1_000_000);
    let clock = Clock::new();
    let _g = clock.rt.enter();
    let nc = tarpc::client::new(tarpc::client::Config::default(), FloodT { left: n, pending: VecDeque::new(), sent: vec![] });
    let mut dispatch = Box::pin(nc.dispatch);
    let client = nc.client;
    let w = noop_waker();
    let mut cx = Context::from_waker(&w);
    let mut call = Box::pin(async move { client.call(tarpc::context::current(), "q".to_string()).await });
    let mut served = false;
    for _ in 0..50 {
        let _ = dispatch.as_mut().poll(&mut cx);
        if let Poll::Ready(r) = call.as_mut().poll(&mut cx) {
            served = r.is_ok();
            break;
        }
    }
    if served {
        println!("SERVED");
    }
    json!({"family": "floodchild", "served": served})
}

fn frame(payload: &[u8]) -> Vec<u8> {
    let mut b = BytesMut::new();
    b.put_u32(payload.len() as u32);
    b.put_slice(payload);
    b.to_vec()
}

/// Feeds raw bytes to a decoder end and reads until error / end / idle.  Never expects a panic.
fn feed_raw(clock: &Clock, codec: &str, dir: &str, bytes: Vec<u8>, close: bool) {
    let (a, b, ab, _ba) = duplex(vec![], vec![]);
    ab.borrow_mut().buf.extend(bytes.iter());
    if close {
        ab.borrow_mut().closed = true;
    }
    let flag = exec::Flag::new("r", true);
    let _g = clock.rt.enter();
    macro_rules! read_all {
        ($t:ty, $codec:expr, $desc:expr) => {{
            let mut r: Pin<Box<tarpc::serde_transport::Transport<End, $t, u8, _>>> =
                Box::pin(tarpc::serde_transport::new(Framed::new(b, LengthDelimitedCodec::new()), $codec));
            let mut n = 0u64;
            let mut nerr = 0u32;
            for _ in 0..10_000 {
                let waker = flag.waker();
                let mut cx = Context::from_waker(&waker);
                match exec::catch(|| r.as_mut().poll_next(&mut cx)) {
                    Ok(Poll::Ready(Some(Ok(item)))) => {
                        n += 1;
                        emit("Decoded", json!({"i": n, "d": $desc(&item)}));
                    }
                    Ok(Poll::Ready(Some(Err(e)))) => {
                        emit("DecodeErr", json!({"msg": format!("{:?}", e).chars().take(100).collect::<String>()}));
                        // the endpoints treat a transport error as fatal; see whether the decoder itself goes on
                        nerr += 1;
                        if nerr > 8 {
                            break;
                        }
                    }
                    Ok(Poll::Ready(None)) => {
                        emit("Eos", json!({"n": n}));
                        break;
                    }
                    Ok(Poll::Pending) => {
                        emit("ReaderIdle", json!({"n": n}));
                        break;
                    }
                    Err(msg) => {
                        emit("Panic", json!({"who": "decoder", "msg": msg}));
                        break;
                    }
                }
            }
        }};
    }
    let dcm = |m: &ClientMessage<String>| describe_cm(clock, m);
    let drs = |m: &Response<String>| describe_resp(m);
    match (codec, dir) {
        ("json", "c2s") => read_all!(ClientMessage<String>, Json::<ClientMessage<String>, u8>::default(), dcm),
        ("json", _) => read_all!(Response<String>, Json::<Response<String>, u8>::default(), drs),
        ("bincode", "c2s") => read_all!(ClientMessage<String>, Bincode::<ClientMessage<String>, u8>::default(), dcm),
        (_, _) => read_all!(Response<String>, Bincode::<Response<String>, u8>::default(), drs),
    }
    drop(a);
}

fn encode_cm(codec: &str, m: &ClientMessage<String>) -> Vec<u8> {
    use bincode::Options;
    match codec {
        "json" => serde_json::to_vec(m).unwrap(),
        _ => bincode::DefaultOptions::new().serialize(m).unwrap(),
    }
}
fn encode_resp(codec: &str, m: &Response<String>) -> Vec<u8> {
    use bincode::Options;
    match codec {
        "json" => serde_json::to_vec(m).unwrap(),
        _ => bincode::DefaultOptions::new().serialize(m).unwrap(),
    }
}

fn run_garbage(clock: &Clock, cfg: &Value) {
    let codec = cfg["codec"].as_str().unwrap_or("json");
    let dir = cfg["dir"].as_str().unwrap_or("c2s");
    let mut rng = StdRng::seed_from_u64(cfg["seed"].as_u64().unwrap_or(1));
    let mode = cfg["mode"].as_str().unwrap_or("mutate");
    let mut bytes: Vec<u8> = vec![];
    let nmsg = cfg["n"].as_u64().unwrap_or(3);
    for i in 0..nmsg {
        let valid = if dir == "c2s" {
            let classes = ["req", "req-unicode", "cancel", "req-idmax", "req-empty"];
            encode_cm(codec, &client_msg(clock, classes[rng.gen_range(0..classes.len())], i + 1))
        } else {
            let classes = ["resp", "err:NotFound", "err:TimedOut", "resp-unicode", "resp-idmax"];
            encode_resp(codec, &response_msg(classes[rng.gen_range(0..classes.len())], i + 1))
        };
        let payload: Vec<u8> = match mode {
            "random" => (0..rng.gen_range(0..64)).map(|_| rng.gen()).collect(),
            "truncate" => valid[..rng.gen_range(0..=valid.len())].to_vec(),
            _ => {
                let mut v = valid.clone();
                for _ in 0..rng.gen_range(1..4) {
                    if v.is_empty() {
                        break;
                    }
                    let k = rng.gen_range(0..v.len());
                    match rng.gen_range(0..3) {
                        0 => v[k] = rng.gen(),
                        1 => {
                            v.remove(k);
                        }
                        _ => v.insert(k, rng.gen()),
                    }
                }
                v
            }
        };
        let mut f = frame(&payload);
        if rng.gen_range(0..6) == 0 {
            // lie about the length
            let l = rng.gen_range(0..200u32);
            f[..4].copy_from_slice(&l.to_be_bytes());
        }
        bytes.extend(f);
    }
    if rng.gen_range(0..4) == 0 && !bytes.is_empty() {
        let k = rng.gen_range(0..bytes.len());
        bytes.truncate(k);
    }
    emit("Fed", json!({"bytes": bytes.len(), "mode": mode}));
    feed_raw(clock, codec, dir, bytes, true);
}

fn run_kinds(clock: &Clock, cfg: &Value) {
    let codec = cfg["codec"].as_str().unwrap_or("json");
    for (idx, name) in PORTABLE.iter().chain(NONPORTABLE.iter()).enumerate() {
        let kind = kind_by_name(name);
        let m = Response::<String> { request_id: idx as u64, message: Err(ServerError::new(kind, "d".into())) };
        let bytes = encode_resp(codec, &m);
        let back: Result<Response<String>, String> = match codec {
            "json" => serde_json::from_slice(&bytes).map_err(|e| e.to_string()),
            _ => {
                use bincode::Options;
                bincode::DefaultOptions::new().deserialize(&bytes).map_err(|e| e.to_string())
            }
        };
        let got = match back {
            Ok(Response { message: Err(e), .. }) => format!("{:?}", e.kind),
            Ok(_) => "ok?".to_string(),
            Err(e) => format!("decode error: {}", e),
        };
        emit("Kind", json!({"name": format!("{:?}", kind), "portable": idx < PORTABLE.len(), "got": got}));
    }
    // kind numbers no tarpc peer of this version writes (a newer or foreign peer): they must decode as Other
    for k in [18u32, 19, 20, 250, 251, 65535, 65536, u32::MAX] {
        let m = Response::<String> { request_id: 1, message: Err(ServerError::new(io::ErrorKind::Other, "d".into())) };
        let mut bytes = encode_resp(codec, &m);
        if codec == "json" {
            let text = String::from_utf8(bytes).unwrap().replace("\"kind\":16", &format!("\"kind\":{}", k));
            bytes = text.into_bytes();
        } else {
            // bincode varint: [request_id = 1][variant Err = 1][kind = 16][detail...]
            let mut v = bytes[..2].to_vec();
            if k < 251 {
                v.push(k as u8);
            } else if k <= 65535 {
                v.push(251);
                v.extend_from_slice(&(k as u16).to_le_bytes());
            } else {
                v.push(252);
                v.extend_from_slice(&k.to_le_bytes());
            }
            v.extend_from_slice(&bytes[3..]);
            bytes = v;
        }
        let back = exec::catch(|| -> Result<Response<String>, String> {
            match codec {
                "json" => serde_json::from_slice(&bytes).map_err(|e| e.to_string()),
                _ => {
                    use bincode::Options;
                    bincode::DefaultOptions::new().deserialize(&bytes).map_err(|e| e.to_string())
                }
            }
        });
        match back {
            Ok(r) => {
                let got = match r {
                    Ok(Response { message: Err(e), .. }) => format!("{:?}", e.kind),
                    Ok(_) => "ok?".to_string(),
                    Err(e) => format!("decode error: {}", e),
                };
                emit("Kind", json!({"name": format!("Foreign{}", k), "portable": false, "got": got}));
            }
            Err(msg) => emit("Panic", json!({"who": "decoder", "msg": msg})),
        }
    }
    let _ = clock;
}

fn run_omit(clock: &Clock, _cfg: &Value) {
    // a peer that omits the deadline / the cancel's trace context (self-describing encoding)
    let req = r#"{"Request":{"context":{"trace_context":{"trace_id":[1,0,0,0,0,0,0,0,0,0,0,0,0,0,0,0],"span_id":5,"sampling_decision":"Sampled"}},"id":7,"message":"hello"}}"#;
    let cancel = r#"{"Cancel":{"request_id":9}}"#;
    let mut bytes = frame(req.as_bytes());
    bytes.extend(frame(cancel.as_bytes()));
    emit("Fed", json!({"bytes": bytes.len(), "mode": "omit"}));
    exec::log_set_now(clock.now_ms());
    feed_raw(clock, "json", "c2s", bytes, true);
}

// ------------------------------------------------------------------------------------ live server over the serde transport
fn deadline_json(secs: u64, nanos: u32) -> String {
    format!(r#"{{"secs":{},"nanos":{}}}"#, secs, nanos)
}

fn live_item_bytes(clock: &Clock, codec: &str, item: &str, i: u64) -> Vec<u8> {
    // boundary-valued but well-formed messages, and malformed ones
    let dl = |secs: u64| -> Vec<u8> {
        match codec {
            "json" => {
                let s = format!(
                    r#"{{"Request":{{"context":{{"deadline":{},"trace_context":{{"trace_id":[2,0,0,0,0,0,0,0,0,0,0,0,0,0,0,0],"span_id":6,"sampling_decision":"Unsampled"}}}},"id":{},"message":"dl"}}}}"#,
                    deadline_json(secs, 0), i);
                frame(s.as_bytes())
            }
            _ => {
                // bincode (varint): enum variant 0, context{deadline{secs,nanos}, trace{trace_id[16], span_id, sampling}}, id, message
                use bincode::Options;
                let o = bincode::DefaultOptions::new();
                let mut v = vec![];
                v.extend(o.serialize(&0u32).unwrap());
                v.extend(o.serialize(&std::time::Duration::new(secs, 0)).unwrap());
                v.extend(o.serialize(&[0u8; 16]).unwrap());
                v.extend(o.serialize(&6u64).unwrap());
                v.extend(o.serialize(&1u32).unwrap());
                v.extend(o.serialize(&i).unwrap());
                v.extend(o.serialize(&"dl".to_string()).unwrap());
                frame(&v)
            }
        }
    };
    match item {
        "req" => frame(&encode_cm(codec, &client_msg(clock, "req", i))),
        "req-idmax" => frame(&encode_cm(codec, &client_msg(clock, "req-idmax", i))),
        "req-past" => frame(&encode_cm(codec, &client_msg(clock, "req-past", i))),
        "dup" => frame(&encode_cm(codec, &client_msg(clock, "req", 1))),
        // duplicates of a request that is still in flight (all frames arrive together, before any handler ran), then its answer or cancellation
        "req-twice" => [frame(&encode_cm(codec, &client_msg(clock, "req", i))), frame(&encode_cm(codec, &client_msg(clock, "req", i)))].concat(),
        "req-twice-cancel" => [frame(&encode_cm(codec, &client_msg(clock, "req", i))), frame(&encode_cm(codec, &client_msg(clock, "req", i))),
                               frame(&encode_cm(codec, &client_msg(clock, "cancel", i)))].concat(),
        "req-dup-past" => [frame(&encode_cm(codec, &client_msg(clock, "req", i))), frame(&encode_cm(codec, &client_msg(clock, "req-past", i))),
                           frame(&encode_cm(codec, &client_msg(clock, "req", i + 100)))].concat(),
        "cancel-unknown" => frame(&encode_cm(codec, &client_msg(clock, "cancel", 4242))),
        "cancel-idmax" => frame(&encode_cm(codec, &client_msg(clock, "cancel-idmax", i))),
        "dl-10y" => dl(315_360_000),
        "dl-3y" => dl(94_608_000),
        "dl-100y" => dl(3_153_600_000),
        "dl-10000y" => dl(315_360_000_000),
        "dl-u64max" => dl(u64::MAX),
        "dl-i64max" => dl(i64::MAX as u64),
        "dl-2p36ms" => dl((1u64 << 36) / 1000 + 1),
        "garbage" => frame(b"\xff\xfe not a message \x00"),
        "truncated" => {
            let f = frame(&encode_cm(codec, &client_msg(clock, "req", i)));
            f[..f.len() / 2].to_vec()
        }
        "hugelen" => vec![0xff, 0xff, 0xff, 0xf0, 1, 2, 3],
        _ => frame(&encode_cm(codec, &client_msg(clock, "req", i))),
    }
}

pub(crate) fn install_subscriber(sub: &str) {
    use tracing_subscriber::prelude::*;
    match sub {
        "fmt" => {
            let _ = tracing_subscriber::fmt().with_writer(std::io::sink).with_max_level(tracing::Level::TRACE).try_init();
        }
        "otel" => {
            use opentelemetry::trace::TracerProvider as _;
            let provider = opentelemetry_sdk::trace::TracerProvider::builder().build();
            let tracer = provider.tracer("vh");
            let _ = tracing_subscriber::registry()
                .with(tracing_opentelemetry::layer().with_tracer(tracer))
                .try_init();
        }
        _ => {}
    }
}

fn run_live(clock: &Clock, cfg: &Value) {
    let codec = cfg["codec"].as_str().unwrap_or("json").to_string();
    let items = str_list(cfg, "items");
    let (a, b, ab, ba) = duplex(vec![], vec![]);
    let _g = clock.rt.enter();
    macro_rules! live {
        ($codec:expr) => {{
            let tr: tarpc::serde_transport::Transport<End, ClientMessage<String>, Response<String>, _> =
                tarpc::serde_transport::new(Framed::new(b, LengthDelimitedCodec::new()), $codec);
            let mut stream = Box::pin(BaseChannel::with_defaults(tr).requests());
            let flag = exec::Flag::new("s", true);
            let mut handlers: Vec<Pin<Box<dyn Future<Output = ()>>>> = vec![];
            let mut ended = false;
            let mut yielded = 0u64;
            let mut feed = |bytes: Vec<u8>| {
                let mut p = ab.borrow_mut();
                p.buf.extend(bytes.iter());
                if let Some(w) = p.rd_waker.take() {
                    w.wake();
                }
            };
            // an old connection: the timer queue was created long before the traffic arrives
            let age_days = cfg["age_days"].as_u64().unwrap_or(0);
            if age_days > 0 {
                let waker = flag.waker();
                let mut cx = Context::from_waker(&waker);
                let _ = exec::catch(|| stream.as_mut().poll_next(&mut cx));
                clock.advance(age_days * 86_400_000);
                emit("Tick", json!({"d": age_days * 86_400_000}));
            }
            let mut all: Vec<(String, Vec<u8>)> = items.iter().enumerate().map(|(i, it)| (it.clone(), live_item_bytes(clock, &codec, it, i as u64 + 10))).collect();
            all.push(("probe".to_string(), frame(&encode_cm(&codec, &client_msg(clock, "req", 999)))));
            for (name, bytes) in all {
                emit("LiveFeed", json!({"item": name, "bytes": bytes.len()}));
                feed(bytes);
                for _ in 0..50 {
                    // the channel is polled only when something woke it (a task that returned Pending without arranging
                    // a wake-up is never polled again by an executor)
                    if ended || !flag.is_set() {
                        break;
                    }
                    let waker = flag.waker();
                    let mut cx = Context::from_waker(&waker);
                    flag.clear();
                    match exec::catch(|| stream.as_mut().poll_next(&mut cx)) {
                        Ok(Poll::Ready(Some(Ok(req)))) => {
                            yielded += 1;
                            let id = req.get().id;
                            emit("LiveYield", json!({"id": format!("{}", id), "dl": ms_of(clock, req.get().context.deadline) / 1000,
                                                     "probe": id == 999}));
                            handlers.push(Box::pin(req.execute(tarpc::server::serve(|_ctx, m: String| async move { Ok(m) }))));
                            // a stream that yielded an item is asked for the next one
                            flag.set.store(true, std::sync::atomic::Ordering::SeqCst);
                        }
                        Ok(Poll::Ready(Some(Err(e)))) => {
                            emit("LiveErr", json!({"msg": format!("{}", e)}));
                            ended = true;
                        }
                        Ok(Poll::Ready(None)) => {
                            emit("LiveEnd", json!({}));
                            ended = true;
                        }
                        Ok(Poll::Pending) => {
                            // run handlers, then see whether the stream was woken
                            let nw = futures::task::noop_waker();
                            let mut hcx = Context::from_waker(&nw);
                            let mut i = 0;
                            while i < handlers.len() {
                                match exec::catch(|| handlers[i].as_mut().poll(&mut hcx)) {
                                    Ok(Poll::Ready(())) => {
                                        handlers.remove(i);
                                    }
                                    Ok(Poll::Pending) => i += 1,
                                    Err(msg) => {
                                        emit("Panic", json!({"who": "handler", "msg": msg}));
                                        handlers.remove(i);
                                    }
                                }
                            }
                            if !flag.is_set() {
                                break;
                            }
                        }
                        Err(msg) => {
                            emit("Panic", json!({"who": "channel", "msg": msg.chars().take(160).collect::<String>()}));
                            ended = true;
                        }
                    }
                }
            }
            // did the probe get answered?
            let out = ba.borrow().written.clone();
            emit("LiveDone", json!({"yielded": yielded, "ended": ended, "out_bytes": out.len(),
                                    "probe_answered": contains(&out, b"body999")}));
        }};
    }
    match codec.as_str() {
        "json" => live!(Json::default()),
        _ => live!(Bincode::default()),
    }
    drop(a);
}

fn contains(hay: &[u8], needle: &[u8]) -> bool {
    hay.windows(needle.len()).any(|w| w == needle)
}

fn run_clientdl(clock: &Clock, cfg: &Value) {
    use tarpc::client;
    let class = cfg["dl_class"].as_str().unwrap_or("10y");
    let secs: u64 = match class {
        "3y" => 94_608_000,
        "10y" => 315_360_000,
        "100y" => 3_153_600_000,
        "10000y" => 315_360_000_000,
        "2p36ms" => (1u64 << 36) / 1000 + 1,
        _ => 60,
    };
    let _g = clock.rt.enter();
    let (tx, _rx) = tarpc::transport::channel::unbounded::<Response<String>, ClientMessage<String>>();
    let nc = client::new::<String, String, _>(client::Config::default(), tx);
    let mut dispatch = Box::pin(nc.dispatch);
    let ch = nc.client;
    let age_days = cfg["age_days"].as_u64().unwrap_or(0);
    if age_days > 0 {
        let nw0 = futures::task::noop_waker();
        let mut cx0 = Context::from_waker(&nw0);
        let _ = exec::catch(|| dispatch.as_mut().poll(&mut cx0));
        clock.advance(age_days * 86_400_000);
    }
    let mut ctx = context::current();
    let base = clock.t0.into_std() + Duration::from_secs(age_days * 86_400);
    match base.checked_add(Duration::from_secs(secs)) {
        Some(d) => ctx.deadline = d,
        None => {
            emit("ClientDl", json!({"class": class, "skipped": true, "panic": false}));
            return;
        }
    }
    let mut call = Box::pin(async move { ch.call(ctx, "x".to_string()).await });
    let nw = futures::task::noop_waker();
    let mut cx = Context::from_waker(&nw);
    let mut panicked = false;
    for _ in 0..3 {
        if let Err(msg) = exec::catch(|| call.as_mut().poll(&mut cx)) {
            emit("Panic", json!({"who": "call", "msg": msg.chars().take(160).collect::<String>()}));
            panicked = true;
            break;
        }
        if let Err(msg) = exec::catch(|| dispatch.as_mut().poll(&mut cx)) {
            emit("Panic", json!({"who": "dispatch", "msg": msg.chars().take(160).collect::<String>()}));
            panicked = true;
            break;
        }
    }
    emit("ClientDl", json!({"class": class, "skipped": false, "panic": panicked}));
}

pub fn run(a: &Args) -> Value {
    let mut scheds: Vec<Sched> = a.sched.as_deref().map(crate::load_scheds).unwrap_or_default();
    let mut rng = StdRng::seed_from_u64(a.seed ^ 0x417E);
    let sub = a.opt_str("sub", "none");
    install_subscriber(&sub);
    exec::LOG_WAKES.store(false, std::sync::atomic::Ordering::Relaxed);
    let want = a.opt_str("kinds", "rt,garbage,live,clientdl");
    for i in 0..a.random {
        let codec = ["json", "bincode"][rng.gen_range(0..2)];
        let kinds: Vec<&str> = want.split(',').collect();
        let kind = kinds[rng.gen_range(0..kinds.len())];
        let cfg = match kind {
            "rt" => {
                let c2s = ["req", "req-id0", "req-idmax", "req-id32", "req-empty", "req-unicode", "req-large", "req-past", "req-now", "cancel", "cancel-idmax", "cancel-notrace", "cancel-zero", "req-notrace", "req-zero"];
                let s2c = ["resp", "resp-idmax", "resp-unicode", "resp-large", "err:NotFound", "err:WouldBlock", "err:UnexpectedEof", "err:Unsupported", "err:OutOfMemory"];
                let dir = ["c2s", "s2c"][rng.gen_range(0..2)];
                let pool: &[&str] = if dir == "c2s" { &c2s } else { &s2c };
                let n = rng.gen_range(0..6);
                let msgs: Vec<&str> = (0..n).map(|_| pool[rng.gen_range(0..pool.len())]).collect();
                let sl = |rng: &mut StdRng| -> Vec<u64> { (0..rng.gen_range(0..6)).map(|_| [0u64, 1, 1, 2, 3, 7, 100][rng.gen_range(0..7)]).collect() };
                let codec2 = ["json", "bincode", "mem-unbounded", "mem-bounded"][rng.gen_range(0..4)];
                let transit = [0u64, 0, 1, 7, 5000][rng.gen_range(0..5)];
                let close = if codec2 == "mem-unbounded" { ["drop", "close", "keep"][rng.gen_range(0..3)] } else { ["drop", "close", "keep", "closekeep"][rng.gen_range(0..4)] };
                let (rs, ws) = (sl(&mut rng), sl(&mut rng));
                let iobuf = rng.gen_range(0..3) == 0;
                let fs = sl(&mut rng);
                json!({"kind": "rt", "codec": codec2, "dir": dir, "msgs": msgs, "rscript": rs, "wscript": ws,
                       "transit": transit, "close": close, "cap": rng.gen_range(1..3u64), "iobuf": iobuf, "fscript": fs})
            }
            "sock" => {
                let c2s = ["req", "req-id0", "req-idmax", "req-id32", "req-empty", "req-unicode", "req-large", "req-past", "req-now", "cancel", "cancel-idmax", "cancel-notrace", "cancel-zero", "req-notrace", "req-zero"];
                let s2c = ["resp", "resp-idmax", "resp-unicode", "resp-large", "err:NotFound", "err:WouldBlock", "err:UnexpectedEof", "err:Unsupported", "err:OutOfMemory"];
                let dir = ["c2s", "s2c"][rng.gen_range(0..2)];
                let pool: &[&str] = if dir == "c2s" { &c2s } else { &s2c };
                let n = rng.gen_range(0..8);
                let msgs: Vec<&str> = (0..n).map(|_| pool[rng.gen_range(0..pool.len())]).collect();
                let codec2 = ["json", "bincode"][rng.gen_range(0..2)];
                let medium = ["tcp", "uds"][rng.gen_range(0..2)];
                let close = ["drop", "close"][rng.gen_range(0..2)];
                let framing = ["default", "default", "le", "len2", "big"][rng.gen_range(0..5)];
                // a 2-byte length field cannot carry the 70 kB bodies
                let msgs: Vec<&str> = msgs.into_iter().filter(|m| framing != "len2" || !m.ends_with("-large")).collect();
                json!({"kind": "sock", "codec": codec2, "medium": medium, "dir": dir, "msgs": msgs, "transit": 0, "close": close, "framing": framing})
            }
            "garbage" => {
                let dir = ["c2s", "s2c"][rng.gen_range(0..2)];
                let mode = ["mutate", "random", "truncate"][rng.gen_range(0..3)];
                json!({"kind": "garbage", "codec": codec, "dir": dir, "seed": rng.gen::<u32>(), "n": rng.gen_range(1..5u64), "mode": mode})
            }
            "live" => {
                let pool = ["req", "req-idmax", "req-past", "dup", "req-twice", "req-twice-cancel", "req-dup-past", "cancel-unknown", "cancel-idmax", "dl-3y", "dl-10y", "dl-100y", "dl-10000y",
                            "dl-u64max", "dl-i64max", "dl-2p36ms"];
                let bad = ["garbage", "truncated", "hugelen"];
                let n = rng.gen_range(1..6);
                let mut items: Vec<&str> = (0..n).map(|_| pool[rng.gen_range(0..pool.len())]).collect();
                if rng.gen_range(0..4) == 0 {
                    items.push(bad[rng.gen_range(0..3)]);
                }
                let age = [0u64, 0, 0, 70, 300][rng.gen_range(0..5)];
                json!({"kind": "live", "codec": codec, "items": items, "sub": sub, "age_days": age})
            }
            _ => {
                let c = ["1m", "3y", "10y", "100y", "10000y", "2p36ms"][rng.gen_range(0..6)];
                let age = [0u64, 0, 70, 300][rng.gen_range(0..4)];
                json!({"kind": "clientdl", "dl_class": c, "sub": sub, "age_days": age})
            }
        };
        scheds.push(Sched { id: format!("r{}", i), cfg, steps: vec![], expect: None });
    }
    let mut index = vec![];
    for (si, s) in scheds.iter().enumerate() {
        let scn = si as u64 + 1;
        exec::log_begin_scenario(scn);
        let clock = Clock::new();
        let kind = s.cfg["kind"].as_str().unwrap_or("rt").to_string();
        emit("Reset", json!({"id": s.id, "kind": if kind == "sock" { "rt" } else { kind.as_str() }, "codec": s.cfg.get("codec").cloned().unwrap_or(json!("")),
                             "transit": s.cfg.get("transit").cloned().unwrap_or(json!(0)),
                             "close": s.cfg.get("close").cloned().unwrap_or(json!("drop")),
                             "age_days": s.cfg.get("age_days").cloned().unwrap_or(json!(0)),
                             "sub": sub}));
        let r = exec::catch(|| match kind.as_str() {
            "rt" => run_rt(&clock, &s.cfg),
            "sock" => run_sock(&s.cfg),
            "flood" => run_flood(&s.cfg),
            "kinds" => run_kinds(&clock, &s.cfg),
            "omit" => run_omit(&clock, &s.cfg),
            "garbage" => run_garbage(&clock, &s.cfg),
            "live" => run_live(&clock, &s.cfg),
            "clientdl" => run_clientdl(&clock, &s.cfg),
            _ => {}
        });
        if let Err(msg) = r {
            emit("Panic", json!({"who": "scenario", "msg": msg.chars().take(160).collect::<String>()}));
        }
        emit("EndScenario", json!({}));
        index.push(json!({"scn": scn, "id": s.id, "cfg": s.cfg, "steps": []}));
    }
    json!({"family": "wire", "executed": scheds.len(), "steps": 0, "skipped_steps": 0, "mismatches": [], "index": index})
}
