//! Family `server`: BaseChannel (+ optional MaxRequests) -> Requests -> InFlightRequest::execute
//! with scripted handlers, over an instrumented transport with an adversarial scripted peer
//! (specification spec/Server.tla, observer spec/ObsServer.tla).
//!
//! Steps
//!   {"a":"Req","id":I,"dl":MS}      peer sends Request{id I, deadline at virtual MS}
//!   {"a":"Cancel","id":I}           peer sends Cancel{id I}
//!   {"a":"PeerEof"}
//!   {"a":"Poll","t":"s"|"hN"}       poll the request stream / handler task N (only if woken)
//!   {"a":"Complete","h":N}          handler N's service future becomes ready
//!   {"a":"DropHandler","h":N}       the application drops handler task N (unstarted or midway)
//!   {"a":"DropStream"}              the application drops the request stream (and the channel)
//!   {"a":"Arm","op":OP,"k":K} {"a":"SinkOpen"|"SinkBlock"|"SinkCredit"} {"a":"Tick","d":MS}
//!   {"a":"Settle"} {"a":"Quiesce"}
//! Handler tasks are numbered in yield order (incarnations); handler N answers with body "hN".

use crate::{
    exec::{self, emit, Clock, Flag},
    vtransport::{self as vt, Shared, VErr, VTransport},
    Args, Sched,
};
use futures::{task::Context, Future, Stream};
use rand::{rngs::StdRng, Rng, SeedableRng};
use serde_json::{json, Value};
use std::{
    cell::RefCell,
    collections::{BTreeMap, HashMap, HashSet},
    pin::Pin,
    rc::Rc,
    sync::Arc,
    task::{Poll, Waker},
};
use tarpc::{
    context,
    server::{self, limits::requests_per_channel::MaxRequests, BaseChannel, Channel, InFlightRequest, Requests, Serve},
    trace, ChannelError, ClientMessage, Request, Response, ServerError,
};

type Req = String;
type Resp = String;
type STr = VTransport<Response<Resp>, ClientMessage<Req>>;
type Base = BaseChannel<Req, Resp, STr>;
type Item = Result<InFlightRequest<Req, Resp>, ChannelError<VErr>>;

thread_local! {
    static T0: RefCell<Option<std::time::Instant>> = const { RefCell::new(None) };
}

fn ms_of(i: std::time::Instant) -> i64 {
    let base = T0.with(|t| t.borrow().unwrap());
    if i >= base {
        (i - base).as_millis().min(2_000_000_000) as i64
    } else {
        -((base - i).as_millis().min(2_000_000_000) as i64)
    }
}

thread_local! {
    /// `bigids`: the peer's request ids are spread over the 64-bit range so that they all agree in their low 32 bits
    /// (logical id i travels as 1 + i * 2^32); the trace keeps the logical ids.
    static BIG_IDS: std::cell::Cell<bool> = const { std::cell::Cell::new(false) };
}
fn enc_id(i: u64) -> u64 {
    if BIG_IDS.with(|b| b.get()) { 1 + (i << 32) } else { i }
}
fn dec_id(w: u64) -> u64 {
    if !BIG_IDS.with(|b| b.get()) {
        w
    } else if w & 0xffff_ffff == 1 {
        w >> 32
    } else {
        900_000 + (w & 0xffff) // an id nobody sent
    }
}

pub fn describe_in(m: &ClientMessage<Req>) -> Value {
    match m {
        ClientMessage::Request(r) => json!({"kind": "req", "id": dec_id(r.id), "dl": ms_of(r.context.deadline),
            "msg": r.message,
            "tr": format!("{:x}", u128::from(r.context.trace_context.trace_id)),
            "span": format!("{:x}", u64::from(r.context.trace_context.span_id)),
            "sampled": r.context.trace_context.sampling_decision == trace::SamplingDecision::Sampled}),
        ClientMessage::Cancel { request_id, .. } => json!({"kind": "cancel", "id": dec_id(*request_id), "dl": 0, "msg": "",
            "tr": "0", "span": "0", "sampled": false}),
        _ => json!({"kind": "other", "id": -1, "dl": 0, "msg": "", "tr": "0", "span": "0", "sampled": false}),
    }
}

pub fn describe_out(r: &Response<Resp>) -> Value {
    match &r.message {
        Ok(b) => {
            let h: i64 = b.trim_start_matches('h').parse().unwrap_or(-1);
            json!({"id": dec_id(r.request_id), "ok": true, "body": b, "ekind": "", "h": h, "throttle": false})
        }
        Err(e) => json!({"id": dec_id(r.request_id), "ok": false, "body": e.detail, "ekind": format!("{:?}", e.kind), "h": -1,
                         "throttle": e.kind == std::io::ErrorKind::WouldBlock}),
    }
}

trait SStream: Stream<Item = Item> {
    fn counts(&self) -> (usize, usize);
}
impl SStream for Requests<Base> {
    fn counts(&self) -> (usize, usize) {
        (self.channel().in_flight_requests(), self.channel().verif_timers())
    }
}
impl SStream for Requests<MaxRequests<Base>> {
    fn counts(&self) -> (usize, usize) {
        (
            self.channel().in_flight_requests(),
            self.channel().get_ref().verif_timers(),
        )
    }
}

#[derive(Default)]
struct Ctl {
    complete: HashSet<u64>,
    wakers: HashMap<u64, Waker>,
}

#[derive(Clone)]
struct Scripted {
    ctl: Rc<RefCell<Ctl>>,
    inc: u64,
}

struct HFut {
    ctl: Rc<RefCell<Ctl>>,
    inc: u64,
    finished: bool,
}

impl Future for HFut {
    type Output = Result<Resp, ServerError>;
    fn poll(mut self: Pin<&mut Self>, cx: &mut Context<'_>) -> Poll<Self::Output> {
        emit("HandlerPoll", json!({"h": self.inc}));
        let done = self.ctl.borrow().complete.contains(&self.inc);
        if done {
            self.finished = true;
            emit("HandlerDone", json!({"h": self.inc, "body": format!("h{}", self.inc)}));
            Poll::Ready(Ok(format!("h{}", self.inc)))
        } else {
            let inc = self.inc;
            self.ctl.borrow_mut().wakers.insert(inc, cx.waker().clone());
            Poll::Pending
        }
    }
}

impl Drop for HFut {
    fn drop(&mut self) {
        emit("HandlerDropped", json!({"h": self.inc, "finished": self.finished}));
    }
}

impl Serve for Scripted {
    type Req = Req;
    type Resp = Resp;
    async fn serve(self, ctx: context::Context, req: Req) -> Result<Resp, ServerError> {
        emit(
            "HandlerStart",
            json!({"h": self.inc, "msg": req, "dl": ms_of(ctx.deadline),
                   "tr": format!("{:x}", u128::from(ctx.trace_context.trace_id)),
                   "span": format!("{:x}", u64::from(ctx.trace_context.span_id)),
                   "sampled": ctx.trace_context.sampling_decision == trace::SamplingDecision::Sampled}),
        );
        HFut {
            ctl: self.ctl.clone(),
            inc: self.inc,
            finished: false,
        }
        .await
    }
}

enum HState {
    Offered(InFlightRequest<Req, Resp>),
    Running(Pin<Box<dyn Future<Output = ()>>>),
    Gone,
}

struct HSlot {
    st: HState,
    flag: Arc<Flag>,
    dl: i64,
    id: u64,
}

pub struct St {
    clock: Clock,
    tr: Shared<Response<Resp>, ClientMessage<Req>>,
    stream: Option<Pin<Box<dyn SStream>>>,
    sflag: Arc<Flag>,
    ctl: Rc<RefCell<Ctl>>,
    handlers: BTreeMap<u64, HSlot>,
    next_inc: u64,
    next_msg: u64,
    steps: Vec<Value>,
    pos: usize,
    done_steps: Vec<Value>,
    skipped: u64,
    gen: Option<Gen>,
    eof_pushed: bool,
    expect: Option<Vec<Value>>,
    mismatch: Option<Value>,
    last_res: Value,
    limit: i64,
}

fn cfg_u64(cfg: &Value, k: &str, d: u64) -> u64 {
    cfg.get(k).and_then(|v| v.as_u64()).unwrap_or(d)
}
fn cfg_i64(cfg: &Value, k: &str, d: i64) -> i64 {
    cfg.get(k).and_then(|v| v.as_i64()).unwrap_or(d)
}
fn cfg_str<'a>(cfg: &'a Value, k: &str, d: &'a str) -> &'a str {
    cfg.get(k).and_then(|v| v.as_str()).unwrap_or(d)
}

impl St {
    fn new(cfg: &Value) -> St {
        let clock = Clock::new();
        T0.with(|t| *t.borrow_mut() = Some(clock.t0.into_std()));
        let mode = vt::mode_of(cfg_str(cfg, "mode", "always"));
        let cap = cfg_u64(cfg, "cap", 1) as usize;
        let (transport, tr) = vt::new("s", mode, cap, describe_out, describe_in);
        if !cfg.get("open").and_then(|v| v.as_bool()).unwrap_or(true) {
            tr.borrow_mut().open = false;
        }
        tr.borrow_mut().credits = cfg_u64(cfg, "credits", 0) as usize;
        if let Some(n) = cfg.get("spin").and_then(|v| v.as_u64()) {
            // burst scenarios legitimately perform thousands of transport operations in one poll
            tr.borrow_mut().spin_limit = n as u32;
        }
        let config = server::Config {
            pending_response_buffer: cfg_u64(cfg, "respBuf", 1) as usize,
        };
        let limit = cfg_i64(cfg, "limit", -1);
        let _g = clock.rt.enter();
        let base: Base = BaseChannel::new(config, transport);
        let stream: Pin<Box<dyn SStream>> = if limit >= 0 {
            Box::pin(base.max_concurrent_requests(limit as usize).requests())
        } else {
            Box::pin(base.requests())
        };
        drop(_g);
        St {
            clock,
            tr,
            stream: Some(stream),
            sflag: Flag::new("s", true),
            ctl: Rc::new(RefCell::new(Ctl::default())),
            handlers: BTreeMap::new(),
            next_inc: 0,
            next_msg: 0,
            steps: vec![],
            pos: 0,
            done_steps: vec![],
            skipped: 0,
            gen: None,
            eof_pushed: false,
            expect: None,
            mismatch: None,
            last_res: json!({}),
            limit,
        }
    }

    fn sync_time(&self) {
        exec::log_set_now(self.clock.now_ms());
    }

    fn poll_stream(&mut self) -> bool {
        if self.stream.is_none() || !self.sflag.is_set() {
            return false;
        }
        let mut s = self.stream.take().unwrap();
        self.sflag.clear();
        self.tr.borrow_mut().begin_poll();
        let waker = self.sflag.waker();
        let mut cx = Context::from_waker(&waker);
        let prev = exec::log_set_task("s");
        emit("PollStart", json!({"who": "s"}));
        let r = {
            let _g = self.clock.rt.enter();
            exec::catch(|| s.as_mut().poll_next(&mut cx))
        };
        match r {
            Ok(Poll::Pending) => {
                let (infl, timers) = s.counts();
                emit("PollEnd", json!({"who": "s", "res": "pending", "infl": infl, "timers": timers}));
                self.last_res = json!({"res": "pending", "infl": infl});
                self.stream = Some(s);
            }
            Ok(Poll::Ready(Some(Ok(ifr)))) => {
                self.next_inc += 1;
                let inc = self.next_inc;
                let (infl, timers) = s.counts();
                let dl;
                let rid;
                {
                    let r: &Request<Req> = ifr.get();
                    dl = ms_of(r.context.deadline);
                    rid = dec_id(r.id);
                    emit(
                        "Yielded",
                        json!({"h": inc, "id": dec_id(r.id), "dl": dl, "msg": r.message,
                               "tr": format!("{:x}", u128::from(r.context.trace_context.trace_id)),
                               "span": format!("{:x}", u64::from(r.context.trace_context.span_id)),
                               "sampled": r.context.trace_context.sampling_decision == trace::SamplingDecision::Sampled}),
                    );
                }
                emit("PollEnd", json!({"who": "s", "res": "item", "infl": infl, "timers": timers}));
                self.last_res = json!({"res": "item", "infl": infl, "h": inc});
                self.handlers.insert(
                    inc,
                    HSlot {
                        st: HState::Offered(ifr),
                        flag: Flag::new(&format!("h{}", inc), true),
                        dl,
                        id: rid,
                    },
                );
                // a stream that yielded an item is polled again
                self.sflag.set.store(true, std::sync::atomic::Ordering::SeqCst);
                self.stream = Some(s);
            }
            Ok(Poll::Ready(Some(Err(e)))) => {
                let kind = match &e {
                    ChannelError::Read(_) => "read",
                    ChannelError::Ready(_) => "ready",
                    ChannelError::Write(_) => "write",
                    ChannelError::Flush(_) => "flush",
                    ChannelError::Close(_) => "close",
                };
                let (infl, timers) = s.counts();
                emit("PollEnd", json!({"who": "s", "res": "err", "infl": infl, "timers": timers}));
                emit("StreamErr", json!({"kind": kind}));
                self.last_res = json!({"res": "err", "infl": infl});
                // Requests::execute ends at the first error and the stream is dropped
                let _g = self.clock.rt.enter();
                let _ = exec::catch(move || drop(s));
                drop(_g);
                emit("StreamDropped", json!({}));
            }
            Ok(Poll::Ready(None)) => {
                let (infl, timers) = s.counts();
                emit("PollEnd", json!({"who": "s", "res": "end", "infl": infl, "timers": timers}));
                emit("StreamEnd", json!({}));
                self.last_res = json!({"res": "end", "infl": infl});
                let _g = self.clock.rt.enter();
                let _ = exec::catch(move || drop(s));
                drop(_g);
                emit("StreamDropped", json!({}));
            }
            Err(msg) => {
                if !msg.starts_with("spin guard") {
                    emit("Panic", json!({"who": "s", "msg": msg}));
                }
                self.last_res = json!({"res": "spin"});
                let _g = self.clock.rt.enter();
                let _ = exec::catch(move || drop(s));
                drop(_g);
                emit("StreamDropped", json!({}));
            }
        }
        exec::log_set_task(&prev);
        true
    }

    fn poll_handler(&mut self, h: u64) -> bool {
        let (st, flag) = match self.handlers.get_mut(&h) {
            Some(slot) if slot.flag.is_set() && !matches!(slot.st, HState::Gone) => {
                (std::mem::replace(&mut slot.st, HState::Gone), slot.flag.clone())
            }
            _ => return false,
        };
        flag.clear();
        let name = format!("h{}", h);
        let prev = exec::log_set_task(&name);
        emit("PollStart", json!({"who": name, "h": h}));
        let mut fut: Pin<Box<dyn Future<Output = ()>>> = match st {
            HState::Offered(ifr) => {
                let serve = Scripted {
                    ctl: self.ctl.clone(),
                    inc: h,
                };
                Box::pin(ifr.execute(serve))
            }
            HState::Running(f) => f,
            HState::Gone => unreachable!(),
        };
        let waker = flag.waker();
        let mut cx = Context::from_waker(&waker);
        let r = {
            let _g = self.clock.rt.enter();
            exec::catch(|| fut.as_mut().poll(&mut cx))
        };
        match r {
            Ok(Poll::Pending) => {
                emit("PollEnd", json!({"who": name, "res": "pending", "infl": 0, "timers": 0}));
                self.last_res = json!({"res": "pending"});
                self.handlers.get_mut(&h).unwrap().st = HState::Running(fut);
            }
            Ok(Poll::Ready(())) => {
                emit("PollEnd", json!({"who": name, "res": "ready", "infl": 0, "timers": 0}));
                self.last_res = json!({"res": "ready"});
                let _g = self.clock.rt.enter();
                drop(fut);
                drop(_g);
                emit("HandlerExit", json!({"h": h}));
            }
            Err(msg) => {
                emit("Panic", json!({"who": name, "msg": msg}));
                let _g = self.clock.rt.enter();
                let _ = exec::catch(move || drop(fut));
            }
        }
        exec::log_set_task(&prev);
        true
    }

    fn woken_names(&self) -> Vec<String> {
        let mut v = vec![];
        if self.stream.is_some() && self.sflag.is_set() {
            v.push("s".to_string());
        }
        for (h, s) in &self.handlers {
            if !matches!(s.st, HState::Gone) && s.flag.is_set() {
                v.push(format!("h{}", h));
            }
        }
        v
    }

    fn settle(&mut self) {
        let mut guard = 0;
        loop {
            guard += 1;
            if guard > 2000 {
                emit("Spin", json!({"ep": "settle", "op": "settle"}));
                break;
            }
            let mut any = self.poll_stream();
            let ids: Vec<u64> = self.handlers.keys().cloned().collect();
            for h in ids {
                if self.poll_handler(h) {
                    any = true;
                }
            }
            if !any {
                break;
            }
        }
    }

    fn settled_event(&self, name: &str) {
        let t = self.tr.borrow();
        let (infl, timers) = self.stream.as_ref().map(|s| s.counts()).unwrap_or((0, 0));
        emit(
            name,
            json!({"inq": t.inq.len(), "writable": t.writable_now(), "unflushed": t.buffered.len(),
                   "infl": infl, "timers": timers, "alive": self.stream.is_some()}),
        );
    }

    fn quiesce(&mut self) {
        let mut first = true;
        for _ in 0..200 {
            self.settle();
            let mut changed = false;
            {
                let mut t = self.tr.borrow_mut();
                if !t.open {
                    t.set_open(true);
                    emit("Env", json!({"what": "SinkOpen"}));
                    changed = true;
                }
                if t.mode == vt::Mode::Independent && t.credits == 0 && !t.closed && self.stream.is_some() {
                    t.add_credit(1);
                    emit("Env", json!({"what": "SinkCredit"}));
                    changed = true;
                }
            }
            self.settle();
            if !self.woken_names().is_empty() || changed {
                continue;
            }
            if first {
                first = false;
                self.settled_event("Settled");
            }
            let now = self.clock.now_ms() as i64;
            let timers = self.stream.as_ref().map(|s| s.counts().1).unwrap_or(0);
            let next = self
                .handlers
                .values()
                .filter(|s| s.dl > now)
                .map(|s| s.dl)
                .min();
            match (timers, next) {
                (t, Some(dl)) if t > 0 => {
                    let d = (dl - now) as u64;
                    self.clock.advance(d);
                    emit("Tick", json!({"d": d}));
                }
                _ => break,
            }
        }
        self.settled_event("Quiescent");
    }

    fn next_step(&mut self) -> Option<Value> {
        if self.pos < self.steps.len() {
            let s = self.steps[self.pos].clone();
            self.pos += 1;
            return Some(s);
        }
        let mut g = self.gen.take()?;
        let r = g.next(self);
        self.gen = Some(g);
        r
    }

    fn run_steps(&mut self) {
        while let Some(step) = self.next_step() {
            let act = step.get("a").and_then(|v| v.as_str()).unwrap_or("").to_string();
            self.exec_step(&act, &step);
        }
    }

    fn exec_step(&mut self, act: &str, step: &Value) {
        self.sync_time();
        let mut ok = true;
        match act {
            "Req" => {
                let id = step["id"].as_u64().unwrap();
                let dl = step.get("dl").and_then(|v| v.as_i64()).unwrap_or(10_000);
                self.next_msg += 1;
                let n = self.next_msg;
                let mut ctx = context::current();
                ctx.deadline = self.clock.std_at(dl);
                // `wrap`: the deadline is 2^64 ms (584 million years) further away: still an `Instant`, and nothing that
                // converts the remaining time to a narrower integer may bring it back near
                if step.get("wrap").and_then(|v| v.as_bool()).unwrap_or(false) {
                    if let Some(d) = ctx.deadline.checked_add(std::time::Duration::from_millis(u64::MAX)).and_then(|d| d.checked_add(std::time::Duration::from_millis(1))) {
                        ctx.deadline = d;
                    }
                }
                ctx.trace_context = trace::Context {
                    trace_id: trace::TraceId::from((500 + n) as u128),
                    span_id: trace::SpanId::from(9u64),
                    sampling_decision: if n % 2 == 0 {
                        trace::SamplingDecision::Sampled
                    } else {
                        trace::SamplingDecision::Unsampled
                    },
                };
                let m = ClientMessage::Request(Request {
                    context: ctx,
                    id: enc_id(id),
                    message: format!("m{}", n),
                });
                emit("PeerPush", json!({"item": describe_in(&m)}));
                self.tr.borrow_mut().push_in(m);
            }
            "Cancel" => {
                let id = step["id"].as_u64().unwrap();
                let m = ClientMessage::Cancel {
                    trace_context: trace::Context::default(),
                    request_id: enc_id(id),
                };
                emit("PeerPush", json!({"item": describe_in(&m)}));
                self.tr.borrow_mut().push_in(m);
            }
            "PeerEof" => {
                emit("PeerEof", json!({}));
                self.eof_pushed = true;
                self.tr.borrow_mut().push_eof();
            }
            "Poll" => {
                let t = step["t"].as_str().unwrap_or("s").to_string();
                ok = if t == "s" {
                    self.poll_stream()
                } else {
                    self.poll_handler(t[1..].parse().unwrap_or(0))
                };
            }
            "Complete" => {
                let h = step["h"].as_u64().unwrap();
                let alive = self
                    .handlers
                    .get(&h)
                    .map(|s| !matches!(s.st, HState::Gone))
                    .unwrap_or(false);
                if !alive || self.ctl.borrow().complete.contains(&h) {
                    ok = false;
                } else {
                    emit("Complete", json!({"h": h}));
                    let w = {
                        let mut c = self.ctl.borrow_mut();
                        c.complete.insert(h);
                        c.wakers.remove(&h)
                    };
                    if let Some(w) = w {
                        w.wake();
                    }
                }
            }
            "DropHandler" => {
                let h = step["h"].as_u64().unwrap();
                let st = match self.handlers.get_mut(&h) {
                    Some(slot) if !matches!(slot.st, HState::Gone) => std::mem::replace(&mut slot.st, HState::Gone),
                    _ => HState::Gone,
                };
                if matches!(st, HState::Gone) {
                    ok = false;
                } else {
                    let started = matches!(st, HState::Running(_));
                    emit("AppDropHandler", json!({"h": h, "started": started}));
                    let _g = self.clock.rt.enter();
                    let r = exec::catch(move || drop(st));
                    drop(_g);
                    if let Err(msg) = r {
                        emit("Panic", json!({"who": format!("h{}", h), "msg": msg}));
                    }
                }
            }
            "DropStream" => {
                if let Some(s) = self.stream.take() {
                    emit("AppDropStream", json!({}));
                    let _g = self.clock.rt.enter();
                    let r = exec::catch(move || drop(s));
                    drop(_g);
                    if let Err(msg) = r {
                        emit("Panic", json!({"who": "s", "msg": msg}));
                    }
                    emit("StreamDropped", json!({}));
                } else {
                    ok = false;
                }
            }
            "Arm" => {
                let op = step["op"].as_str().unwrap().to_string();
                let k = step.get("k").and_then(|v| v.as_u64()).unwrap_or(1) as u32;
                emit("Env", json!({"what": "Arm", "op": op, "k": k}));
                self.tr.borrow_mut().arm(&op, k);
            }
            "SinkOpen" => {
                emit("Env", json!({"what": "SinkOpen"}));
                self.tr.borrow_mut().set_open(true);
            }
            "SinkBlock" => {
                emit("Env", json!({"what": "SinkBlock"}));
                self.tr.borrow_mut().set_open(false);
            }
            "SinkCredit" => {
                emit("Env", json!({"what": "SinkCredit"}));
                self.tr.borrow_mut().add_credit(1);
            }
            "Tick" => {
                let d = step["d"].as_u64().unwrap_or(1);
                self.clock.advance(d);
                emit("Tick", json!({"d": d}));
            }
            "Settle" => {
                self.settle();
                self.settled_event("Settled");
            }
            "Quiesce" => self.quiesce(),
            _ => ok = false,
        }
        if ok {
            self.done_steps.push(step.clone());
        } else {
            self.skipped += 1;
        }
        self.compare(ok, act, step);
        if ok && act != "Settle" && act != "Quiesce" && self.woken_names().is_empty() {
            self.settled_event("Settled");
        }
    }

    fn compare(&mut self, ok: bool, act: &str, step: &Value) {
        let idx = self.pos.wrapping_sub(1);
        let exp = match self.expect.as_ref().and_then(|e| e.get(idx)) {
            Some(e) => e.clone(),
            None => return,
        };
        if self.mismatch.is_some() {
            return;
        }
        let woken = self.woken_names();
        let mut bad = !ok;
        if act == "Poll" {
            for k in ["res", "infl", "h"] {
                if let Some(x) = exp.get(k) {
                    if self.last_res.get(k) != Some(x) {
                        bad = true;
                    }
                }
            }
        }
        if let Some(ws) = exp.get("woken").and_then(|w| w.as_array()) {
            for w in ws {
                if let Some(n) = w.as_str() {
                    if !woken.iter().any(|x| x == n) {
                        bad = true;
                    }
                }
            }
        }
        if bad {
            self.mismatch = Some(json!({"step": idx, "action": step, "applicable": ok, "expected": exp,
                                        "got": self.last_res, "woken": woken}));
        }
    }
}

/// Online seeded generator (see client.rs).
pub struct Gen {
    rng: StdRng,
    left: u64,
    nreq: u64,
    sent: u64,
    ids: u64,
    faults_left: u64,
    mode: String,
    fresh_only: bool,
    used_ids: Vec<u64>,
    appdrop: bool,
    /// duplicates-while-in-flight only: an id is re-sent only while its handler is alive and unfinished
    dups: bool,
    /// response-backlog schedules: far deadlines only, the sink rarely opens, handlers complete eagerly
    backlog: bool,
    /// deadlines of 12 hours / 2 days and clock steps of 9 and 30 hours
    hours: bool,
}

impl Gen {
    fn next(&mut self, st: &mut St) -> Option<Value> {
        let rng = &mut self.rng;
        if self.left == 0 {
            return None;
        }
        self.left -= 1;
        let alive = st.stream.is_some();
        let mut ch: Vec<(u32, Value)> = vec![];
        let now = st.clock.now_ms() as i64;
        if alive && !st.eof_pushed && self.sent < self.nreq {
            let alive: Vec<u64> = st.handlers.iter()
                .filter(|(h, s)| !matches!(s.st, HState::Gone) && !st.ctl.borrow().complete.contains(h))
                .map(|(_, s)| s.id).collect();
            let id = if self.dups {
                if !alive.is_empty() && rng.gen_bool(0.5) {
                    alive[rng.gen_range(0..alive.len())]
                } else {
                    self.used_ids.iter().max().map(|m| m + 1).unwrap_or(0)
                }
            } else if self.fresh_only {
                self.used_ids.len() as u64
            } else {
                rng.gen_range(0..self.ids)
            };
            let dls = [0i64, 1, 2, 3, 5, 8, 10_000, 10_000, 10_000];
            let dl = if self.backlog {
                10_000
            } else if self.hours && rng.gen_range(0..3) == 0 {
                now + [43_200_000i64, 172_800_000][rng.gen_range(0..2)]
            } else {
                dls[rng.gen_range(0..dls.len())]
            };
            let dl = if dl < 10_000 && rng.gen_bool(0.7) { now + dl } else { dl };
            if !self.backlog && dl < 20_000 && rng.gen_range(0..12) == 0 {
                ch.push((14, json!({"a":"Req","id":id,"dl":now + dl.min(10),"wrap":true})));
            } else {
                ch.push((14, json!({"a":"Req","id":id,"dl":dl})));
            }
        }
        if alive && !st.eof_pushed && !self.used_ids.is_empty() {
            let id = if rng.gen_range(0..6) == 0 {
                rng.gen_range(0..self.ids + 1)
            } else {
                self.used_ids[rng.gen_range(0..self.used_ids.len())]
            };
            ch.push((5, json!({"a":"Cancel","id":id})));
        }
        if alive && st.sflag.is_set() {
            ch.push((30, json!({"a":"Poll","t":"s"})));
        }
        for (h, s) in &st.handlers {
            if matches!(s.st, HState::Gone) {
                continue;
            }
            if s.flag.is_set() {
                ch.push((10, json!({"a":"Poll","t":format!("h{}", h)})));
            }
            if !st.ctl.borrow().complete.contains(h) {
                ch.push((if self.backlog { 12 } else { 6 }, json!({"a":"Complete","h":h})));
            }
            if self.appdrop {
                ch.push((1, json!({"a":"DropHandler","h":h})));
            }
        }
        {
            let d = [1u64, 1, 2, 5][rng.gen_range(0..4)];
            ch.push((8, json!({"a":"Tick","d":d})));
            if self.hours {
                let big = [32_400_000u64, 108_000_000][rng.gen_range(0..2)];
                ch.push((2, json!({"a":"Tick","d":big})));
            }
        }
        match self.mode.as_str() {
            "coupled" => {
                ch.push((if self.backlog { 1 } else { 5 }, json!({"a":"SinkOpen"})));
                ch.push((3, json!({"a":"SinkBlock"})));
            }
            "independent" => ch.push((8, json!({"a":"SinkCredit"}))),
            _ => {}
        }
        ch.push((4, json!({"a":"Settle"})));
        if alive && !st.eof_pushed {
            ch.push((1, json!({"a":"PeerEof"})));
        }
        if self.faults_left > 0 && alive {
            let ops = ["next", "ready", "send", "flush"];
            ch.push((3, json!({"a":"Arm","op":ops[rng.gen_range(0..ops.len())],"k":rng.gen_range(1..=3u64)})));
        }
        if alive && rng.gen_range(0..40) == 0 {
            ch.push((1, json!({"a":"DropStream"})));
        }
        let total: u32 = ch.iter().map(|(w, _)| *w).sum();
        if total == 0 {
            return None;
        }
        let mut x = rng.gen_range(0..total);
        for (w, v) in ch {
            if x < w {
                match v["a"].as_str().unwrap_or("") {
                    "Req" => {
                        self.sent += 1;
                        let id = v["id"].as_u64().unwrap();
                        if !self.used_ids.contains(&id) {
                            self.used_ids.push(id);
                        }
                    }
                    "Arm" => self.faults_left -= 1,
                    _ => {}
                }
                return Some(v);
            }
            x -= w;
        }
        None
    }
}

pub fn random_sched(i: u64, rng: &mut StdRng, a: &Args) -> Sched {
    let modes = ["always", "always", "coupled", "independent"];
    let mode = a.opts.get("mode").cloned().unwrap_or_else(|| modes[rng.gen_range(0..modes.len())].to_string());
    let faults = if a.opt_u64("faults", 1) == 1 && rng.gen_range(0..3) == 0 { rng.gen_range(1..=2u64) } else { 0 };
    let limit: i64 = match a.opts.get("limit") {
        Some(l) if l == "any" => [-1i64, 0, 1, 2][rng.gen_range(0..4)],
        Some(l) if l == "some" => [0i64, 1, 1, 2][rng.gen_range(0..4)],
        Some(l) => l.parse().unwrap_or(-1),
        None => [-1i64, -1, 1, 2][rng.gen_range(0..4)],
    };
    let fresh = a.opt_u64("fresh", 0) == 1 || rng.gen_bool(0.5);
    let backlog = a.opt_u64("backlog", 0) == 1;
    let cfg = json!({"respBuf": rng.gen_range(1..=2u64), "limit": limit, "mode": mode,
                     "cap": rng.gen_range(1..=2u64), "open": rng.gen_range(0..4) != 0 && !backlog,
                     "credits": rng.gen_range(0..=2u64),
                     "random": {"seed": rng.gen::<u32>(), "len": rng.gen_range(8..70u64),
                                "reqs": rng.gen_range(1..=a.opt_u64("reqs", 5)), "ids": rng.gen_range(1..=3u64),
                                "faults": faults, "fresh": fresh,
                                "appdrop": a.opt_u64("appdrop", if fresh { 1 } else { 0 }) == 1 && fresh,
                                "dups": a.opt_u64("dups", 0) == 1, "backlog": backlog, "hours": a.opt_u64("hours", 0) == 1}});
    Sched {
        id: format!("r{}", i),
        cfg,
        steps: vec![],
        expect: None,
    }
}

pub struct OneResult {
    pub steps: Vec<Value>,
    pub skipped: u64,
    pub mismatch: Option<Value>,
}

pub fn run_one(scn: u64, s: &Sched) -> OneResult {
    exec::log_begin_scenario(scn);
    BIG_IDS.with(|b| b.set(s.cfg.get("bigids").and_then(|v| v.as_bool()).unwrap_or(false)));
    let mut st = St::new(&s.cfg);
    emit(
        "Reset",
        json!({"id": s.id, "limit": st.limit, "respBuf": cfg_u64(&s.cfg, "respBuf", 1),
               "mode": cfg_str(&s.cfg, "mode", "always"), "cap": cfg_u64(&s.cfg, "cap", 1),
               "open": s.cfg.get("open").and_then(|v| v.as_bool()).unwrap_or(true),
               "credits": cfg_u64(&s.cfg, "credits", 0),
               "burst": s.cfg.get("burst").and_then(|v| v.as_bool()).unwrap_or(false)}),
    );
    st.steps = s.steps.clone();
    st.expect = s.expect.clone();
    if let Some(r) = s.cfg.get("random") {
        st.gen = Some(Gen {
            rng: StdRng::seed_from_u64(cfg_u64(r, "seed", 0)),
            left: cfg_u64(r, "len", 20),
            nreq: cfg_u64(r, "reqs", 3),
            sent: 0,
            ids: cfg_u64(r, "ids", 2),
            faults_left: cfg_u64(r, "faults", 0),
            mode: cfg_str(&s.cfg, "mode", "always").to_string(),
            fresh_only: r.get("fresh").and_then(|v| v.as_bool()).unwrap_or(false),
            used_ids: vec![],
            appdrop: r.get("appdrop").and_then(|v| v.as_bool()).unwrap_or(false),
            dups: r.get("dups").and_then(|v| v.as_bool()).unwrap_or(false),
            backlog: r.get("backlog").and_then(|v| v.as_bool()).unwrap_or(false),
            hours: r.get("hours").and_then(|v| v.as_bool()).unwrap_or(false),
        });
    }
    st.run_steps();
    if s.cfg.get("quiesce").and_then(|v| v.as_bool()).unwrap_or(true) {
        st.quiesce();
    }
    emit("EndScenario", json!({}));
    let res = OneResult {
        steps: std::mem::take(&mut st.done_steps),
        skipped: st.skipped,
        mismatch: st.mismatch.take(),
    };
    let _g = st.clock.rt.enter();
    exec::log_enable(false);
    let _ = exec::catch(|| {
        st.handlers.clear();
        st.stream.take();
    });
    exec::log_enable(true);
    drop(_g);
    res
}

pub fn run(a: &Args) -> Value {
    // `sub`: the tracing subscriber of the process (none / fmt at TRACE level / otel): what the channel logs must not matter
    crate::wire::install_subscriber(&a.opt_str("sub", "none"));
    let mut scheds: Vec<Sched> = a.sched.as_deref().map(crate::load_scheds).unwrap_or_default();
    let mut rng = StdRng::seed_from_u64(a.seed ^ 0x5E47E4);
    for i in 0..a.random {
        scheds.push(random_sched(i, &mut rng, a));
    }
    let mut index = vec![];
    let mut steps_total = 0u64;
    let mut skipped = 0u64;
    let mut mismatches = vec![];
    // every third scenario that does not say otherwise uses request ids that agree in their low 32 bits (recorded in its cfg,
    // so that a replay reproduces it)
    for (si, s) in scheds.iter_mut().enumerate() {
        if s.cfg.get("bigids").is_none() && !s.cfg.get("burst").and_then(|v| v.as_bool()).unwrap_or(false) {
            s.cfg["bigids"] = json!(si % 3 == 2);
        }
    }
    for (si, s) in scheds.iter().enumerate() {
        let scn = si as u64 + 1;
        let r = run_one(scn, s);
        steps_total += r.steps.len() as u64;
        skipped += r.skipped;
        if let Some(m) = r.mismatch {
            if mismatches.len() < 50 {
                mismatches.push(json!({"id": s.id, "scn": scn, "at": m}));
            }
        }
        index.push(json!({"scn": scn, "id": s.id, "cfg": s.cfg, "steps": r.steps}));
    }
    json!({
        "family": "server",
        "executed": scheds.len(),
        "steps": steps_total,
        "skipped_steps": skipped,
        "mismatches": mismatches,
        "index": index,
    })
}
