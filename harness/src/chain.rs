//! Family `chain`: service chains of depth 1..3 (properties C04 cascade, C07 across hops, C18 across
//! hops; specification spec/Chain.tla).
//!
//! Hop k (1-based) = client k (Channel + RequestDispatch) -- link k --> server k (BaseChannel ->
//! Requests) whose handler, for k < depth, calls client k+1 *with the context it was given* and
//! returns that result; the leaf handler waits for the scenario to complete it.  Links are pairs of
//! instrumented transports; an item flushed on one side becomes readable on the other after the
//! link's transit delay (virtual time).
//!
//! Steps: {"a":"Start","dl":MS,"tr":T,"sampled":B} {"a":"Settle"} {"a":"Tick","d":MS}
//!        {"a":"Abandon"} {"a":"CompleteLeaf"} {"a":"Poll","t":NAME} {"a":"Deliver"} {"a":"Quiesce"}
//! Task names: "call", "d<k>", "s<k>", "h<k>".

use crate::{
    exec::{self, emit, Clock, Flag},
    vtransport::{self as vt, Shared, VErr, VTransport},
    Args, Sched,
};
use futures::{task::Context, Future, Stream};
use opentelemetry::trace::TraceContextExt;
use rand::{rngs::StdRng, Rng, SeedableRng};
use serde_json::{json, Value};
use std::{
    cell::RefCell,
    collections::{BTreeMap, VecDeque},
    pin::Pin,
    rc::Rc,
    sync::Arc,
    task::{Poll, Waker},
};
use tarpc::{
    client::{self, Channel as ClientChannel, RequestDispatch, RpcError},
    context,
    server::{BaseChannel, Channel, InFlightRequest, Requests, Serve},
    trace, ChannelError, ClientMessage, Response, ServerError,
};

type Req = String;
type Resp = String;
type CTr = VTransport<ClientMessage<Req>, Response<Resp>>;
type STr = VTransport<Response<Resp>, ClientMessage<Req>>;
type Item = Result<InFlightRequest<Req, Resp>, ChannelError<VErr>>;
type BoxFut<T> = Pin<Box<dyn Future<Output = T>>>;

thread_local! {
    static T0: RefCell<Option<std::time::Instant>> = const { RefCell::new(None) };
    /// the head call's deadline (ms): deadlines are also logged relative to it, so that deadlines years away
    /// stay within the 32-bit integers of the trace specification
    static HEAD_DL: RefCell<i64> = const { RefCell::new(0) };
}
const CLAMP: i64 = 2_000_000_000;

thread_local! {
    /// `sub=otel-server`: only the server side (request streams and handlers) runs under an OpenTelemetry subscriber;
    /// the head caller and the dispatches are untraced, as a client process without a subscriber would be.
    static SERVER_DISPATCH: RefCell<Option<tracing::Dispatch>> = const { RefCell::new(None) };
}
fn under_server<R>(f: impl FnOnce() -> R) -> R {
    let d = SERVER_DISPATCH.with(|d| d.borrow().clone());
    match d {
        Some(d) => tracing::dispatcher::with_default(&d, f),
        None => f(),
    }
}
fn rel_of(dl_ms: i64) -> i64 {
    (dl_ms - HEAD_DL.with(|h| *h.borrow())).clamp(-CLAMP, CLAMP)
}
fn ms_of(i: std::time::Instant) -> i64 {
    let base = T0.with(|t| t.borrow().unwrap());
    if i >= base {
        (i - base).as_millis() as i64
    } else {
        -((base - i).as_millis() as i64)
    }
}
fn tc(c: &trace::Context) -> Value {
    json!({"tr": format!("{:x}", u128::from(c.trace_id)), "span": format!("{:x}", u64::from(c.span_id)),
           "sampled": c.sampling_decision == trace::SamplingDecision::Sampled})
}

fn d_cm(m: &ClientMessage<Req>) -> Value {
    match m {
        ClientMessage::Request(r) => {
            let mut v = tc(&r.context.trace_context);
            v["kind"] = json!("req");
            v["id"] = json!(r.id);
            v["dl"] = json!(ms_of(r.context.deadline).clamp(-CLAMP, CLAMP));
            v["rel"] = json!(rel_of(ms_of(r.context.deadline)));
            v
        }
        ClientMessage::Cancel { trace_context, request_id } => {
            let mut v = tc(trace_context);
            v["kind"] = json!("cancel");
            v["id"] = json!(request_id);
            v["dl"] = json!(0);
            v["rel"] = json!(0);
            v
        }
        _ => json!({"kind": "other"}),
    }
}
fn d_resp(r: &Response<Resp>) -> Value {
    json!({"kind": "resp", "id": r.request_id, "ok": r.message.is_ok()})
}

#[derive(Default)]
struct Ctl {
    leaf_done: bool,
    leaf_waker: Option<Waker>,
}

#[derive(Clone)]
struct HopServe {
    hop: usize,
    /// nested calls are made with `context::current()` instead of the handler's context argument
    usecur: bool,
    /// added to the deadline of the nested call
    extend_ms: u64,
    next: Option<ClientChannel<Req, Resp>>,
    ctl: Rc<RefCell<Ctl>>,
}

struct LeafFut {
    hop: usize,
    ctl: Rc<RefCell<Ctl>>,
}
impl Future for LeafFut {
    type Output = ();
    fn poll(self: Pin<&mut Self>, cx: &mut Context<'_>) -> Poll<()> {
        let mut c = self.ctl.borrow_mut();
        if c.leaf_done {
            Poll::Ready(())
        } else {
            c.leaf_waker = Some(cx.waker().clone());
            Poll::Pending
        }
    }
}
struct DropLog {
    hop: usize,
    finished: bool,
}
impl Drop for DropLog {
    fn drop(&mut self) {
        emit("ChainHandlerDropped", json!({"k": self.hop, "finished": self.finished}));
    }
}

impl Serve for HopServe {
    type Req = Req;
    type Resp = Resp;
    async fn serve(self, ctx: context::Context, req: Req) -> Result<Resp, ServerError> {
        let mut v = tc(&ctx.trace_context);
        v["k"] = json!(self.hop);
        v["dl"] = json!(ms_of(ctx.deadline).clamp(-CLAMP, CLAMP));
        v["rel"] = json!(rel_of(ms_of(ctx.deadline)));
        // what `context::current()` reports inside the handler (meaningful under an OpenTelemetry layer only)
        let cur = context::current();
        let mut cv = tc(&cur.trace_context);
        cv["rel"] = json!(rel_of(ms_of(cur.deadline)));
        v["cur"] = cv;
        let mut ctx = if self.usecur { cur } else { ctx };
        // `extend`: the handler gives its nested call a later deadline than its own (it may: the context is the caller's to choose)
        if self.extend_ms > 0 {
            ctx.deadline += std::time::Duration::from_millis(self.extend_ms);
        }
        v["nrel"] = json!(rel_of(ms_of(ctx.deadline)));
        emit("ChainHandlerStart", v);
        let mut guard = DropLog { hop: self.hop, finished: false };
        let out = match self.next {
            Some(next) => {
                let r = next.call(ctx, req).await;
                emit("ChainNestedResult", json!({"k": self.hop, "ok": r.is_ok()}));
                r.map_err(|e| ServerError::new(std::io::ErrorKind::Other, e.to_string()))
            }
            None => {
                LeafFut { hop: self.hop, ctl: self.ctl.clone() }.await;
                Ok(format!("leaf{}", self.hop))
            }
        };
        guard.finished = true;
        emit("ChainHandlerDone", json!({"k": self.hop}));
        out
    }
}

struct Link {
    c: Shared<ClientMessage<Req>, Response<Resp>>,
    s: Shared<Response<Resp>, ClientMessage<Req>>,
    delay: u64,
    to_server: VecDeque<(u64, ClientMessage<Req>)>,
    to_client: VecDeque<(u64, Response<Resp>)>,
}

struct Hop {
    dispatch: Option<Pin<Box<RequestDispatch<Req, Resp, CTr>>>>,
    dflag: Arc<Flag>,
    stream: Option<Pin<Box<Requests<BaseChannel<Req, Resp, STr>>>>>,
    sflag: Arc<Flag>,
    handlers: Vec<(Option<BoxFut<()>>, Arc<Flag>)>,
}

struct St {
    clock: Clock,
    depth: usize,
    hops: Vec<Hop>,
    links: Vec<Link>,
    head: Option<ClientChannel<Req, Resp>>,
    call: Option<BoxFut<Result<Resp, RpcError>>>,
    cflag: Arc<Flag>,
    ctl: Rc<RefCell<Ctl>>,
    head_dl: i64,
    usecur: bool,
    otel: bool,
    own: bool,
    extend_ms: u64,
}

// The clients of hops 2.. must be reachable when a handler is created; keep them here.
thread_local! {
    static CLIENTS: RefCell<Vec<Option<ClientChannel<Req, Resp>>>> = const { RefCell::new(Vec::new()) };
}

fn build(cfg: &Value) -> St {
    // Build clients first so that handlers can clone them.
    let clock = Clock::new();
    T0.with(|t| *t.borrow_mut() = Some(clock.t0.into_std()));
    let depth = cfg["depth"].as_u64().unwrap_or(2).clamp(1, 3) as usize;
    let delays: Vec<u64> = (0..depth)
        .map(|i| cfg["delays"].as_array().and_then(|a| a.get(i)).and_then(|v| v.as_u64()).unwrap_or(0))
        .collect();
    let ctl = Rc::new(RefCell::new(Ctl::default()));
    let _g = clock.rt.enter();
    let mut hops = vec![];
    let mut links = vec![];
    let mut clients = vec![];
    for k in 1..=depth {
        // a gated hop's client transport reports readiness only while its gate is open (back-pressure)
        let gated = cfg["gated"].as_array().map(|a| a.iter().any(|v| v.as_u64() == Some(k as u64))).unwrap_or(false);
        let cmode = if gated { vt::Mode::Independent } else { vt::Mode::Always };
        let (ct, cs) = vt::new::<ClientMessage<Req>, Response<Resp>>(&format!("c{}", k), cmode, 1, d_cm, d_resp);
        cs.borrow_mut().credits = 1_000_000;
        let (stt, ss) = vt::new::<Response<Resp>, ClientMessage<Req>>(&format!("s{}", k), vt::Mode::Always, 1, d_resp, d_cm);
        let nc = client::new(client::Config::default(), ct);
        let stream = BaseChannel::with_defaults(stt).requests();
        hops.push(Hop {
            dispatch: Some(Box::pin(nc.dispatch)),
            dflag: Flag::new(&format!("d{}", k), true),
            stream: Some(Box::pin(stream)),
            sflag: Flag::new(&format!("s{}", k), true),
            handlers: vec![],
        });
        links.push(Link { c: cs, s: ss, delay: delays[k - 1], to_server: VecDeque::new(), to_client: VecDeque::new() });
        clients.push(Some(nc.client));
    }
    drop(_g);
    let head = clients[0].take();
    CLIENTS.with(|c| *c.borrow_mut() = clients);
    St { clock, depth, hops, links, head, call: None, cflag: Flag::new("call", true), ctl, head_dl: 0, usecur: cfg["usecur"].as_bool().unwrap_or(false), otel: false, own: cfg["own"].as_bool().unwrap_or(false), extend_ms: cfg["extend"].as_u64().unwrap_or(0) }
}

impl St {
    fn now(&self) -> u64 {
        self.clock.now_ms()
    }

    /// Moves flushed items across the links (respecting transit delays). Returns true if anything moved.
    fn deliver(&mut self) -> bool {
        let now = self.now();
        let mut moved = false;
        for (i, l) in self.links.iter_mut().enumerate() {
            {
                let mut c = l.c.borrow_mut();
                while let Some(m) = c.out.pop_front() {
                    emit("LinkSent", json!({"k": i + 1, "dir": "down", "item": d_cm(&m)}));
                    l.to_server.push_back((now + l.delay, m));
                }
            }
            {
                let mut s = l.s.borrow_mut();
                while let Some(m) = s.out.pop_front() {
                    l.to_client.push_back((now + l.delay, m));
                }
            }
            while l.to_server.front().map(|(t, _)| *t <= now).unwrap_or(false) {
                let (_, m) = l.to_server.pop_front().unwrap();
                emit("LinkDelivered", json!({"k": i + 1, "dir": "down", "item": d_cm(&m)}));
                l.s.borrow_mut().push_in(m);
                moved = true;
            }
            while l.to_client.front().map(|(t, _)| *t <= now).unwrap_or(false) {
                let (_, m) = l.to_client.pop_front().unwrap();
                l.c.borrow_mut().push_in(m);
                moved = true;
            }
        }
        moved
    }

    fn next_due(&self) -> Option<u64> {
        self.links
            .iter()
            .flat_map(|l| l.to_server.iter().map(|x| x.0).chain(l.to_client.iter().map(|x| x.0)))
            .min()
    }

    fn poll_all(&mut self) -> bool {
        let mut any = false;
        let _g = self.clock.rt.enter();
        // head call
        if self.call.is_some() && self.cflag.is_set() {
            any = true;
            self.cflag.clear();
            let waker = self.cflag.waker();
            let mut cx = Context::from_waker(&waker);
            let mut f = self.call.take().unwrap();
            match exec::catch(|| f.as_mut().poll(&mut cx)) {
                Ok(Poll::Ready(r)) => {
                    emit("ChainCallResolved", json!({"ok": r.is_ok(), "res": match &r { Ok(b) => b.clone(), Err(e) => e.to_string() }}));
                }
                Ok(Poll::Pending) => self.call = Some(f),
                Err(m) => emit("Panic", json!({"who": "call", "msg": m})),
            }
        }
        for k in 0..self.depth {
            // dispatch
            if self.hops[k].dispatch.is_some() && self.hops[k].dflag.is_set() {
                any = true;
                let flag = self.hops[k].dflag.clone();
                flag.clear();
                self.links[k].c.borrow_mut().begin_poll();
                let waker = flag.waker();
                let mut cx = Context::from_waker(&waker);
                let mut d = self.hops[k].dispatch.take().unwrap();
                exec::log_set_task(&format!("d{}", k + 1));
                match exec::catch(|| d.as_mut().poll(&mut cx)) {
                    Ok(Poll::Ready(r)) => emit("ChainDispatchDone", json!({"k": k + 1, "ok": r.is_ok()})),
                    Ok(Poll::Pending) => self.hops[k].dispatch = Some(d),
                    Err(m) => emit("Panic", json!({"who": format!("d{}", k + 1), "msg": m})),
                }
                exec::log_set_task("env");
            }
            // server stream
            if self.hops[k].stream.is_some() && self.hops[k].sflag.is_set() {
                any = true;
                let flag = self.hops[k].sflag.clone();
                flag.clear();
                self.links[k].s.borrow_mut().begin_poll();
                let waker = flag.waker();
                let mut cx = Context::from_waker(&waker);
                let mut s = self.hops[k].stream.take().unwrap();
                exec::log_set_task(&format!("s{}", k + 1));
                let r: Result<Poll<Option<Item>>, String> = under_server(|| exec::catch(|| s.as_mut().poll_next(&mut cx)));
                exec::log_set_task("env");
                match r {
                    Ok(Poll::Ready(Some(Ok(ifr)))) => {
                        // `own`: the handler holds the only handle of its downstream client (a service that dials per request),
                        // so an aborted handler drops its nested call and the last handle in one step
                        let own = self.own;
                        let next = if k + 1 < self.depth {
                            CLIENTS.with(|c| if own { c.borrow_mut()[k + 1].take() } else { c.borrow()[k + 1].clone() })
                        } else {
                            None
                        };
                        emit("ChainYield", json!({"k": k + 1, "id": ifr.get().id, "dl": ms_of(ifr.get().context.deadline).clamp(-CLAMP, CLAMP)}));
                        let serve = HopServe { hop: k + 1, usecur: self.usecur, extend_ms: self.extend_ms, next, ctl: self.ctl.clone() };
                        let fut: BoxFut<()> = under_server(|| Box::pin(ifr.execute(serve)) as BoxFut<()>);
                        self.hops[k].handlers.push((Some(fut), Flag::new(&format!("h{}", k + 1), true)));
                        flag.set.store(true, std::sync::atomic::Ordering::SeqCst);
                        self.hops[k].stream = Some(s);
                    }
                    Ok(Poll::Ready(Some(Err(e)))) => emit("ChainStreamErr", json!({"k": k + 1, "msg": e.to_string()})),
                    Ok(Poll::Ready(None)) => emit("ChainStreamEnd", json!({"k": k + 1})),
                    Ok(Poll::Pending) => self.hops[k].stream = Some(s),
                    Err(m) => emit("Panic", json!({"who": format!("s{}", k + 1), "msg": m})),
                }
            }
            // handlers
            for i in 0..self.hops[k].handlers.len() {
                let flag = self.hops[k].handlers[i].1.clone();
                if self.hops[k].handlers[i].0.is_some() && flag.is_set() {
                    any = true;
                    flag.clear();
                    let waker = flag.waker();
                    let mut cx = Context::from_waker(&waker);
                    let mut f = self.hops[k].handlers[i].0.take().unwrap();
                    exec::log_set_task(&format!("h{}", k + 1));
                    match under_server(|| exec::catch(|| f.as_mut().poll(&mut cx))) {
                        Ok(Poll::Ready(())) => emit("ChainHandlerExit", json!({"k": k + 1})),
                        Ok(Poll::Pending) => self.hops[k].handlers[i].0 = Some(f),
                        Err(m) => emit("Panic", json!({"who": format!("h{}", k + 1), "msg": m})),
                    }
                    exec::log_set_task("env");
                }
            }
        }
        any
    }

    fn settle(&mut self) {
        for _ in 0..500 {
            let a = self.poll_all();
            let b = self.deliver();
            if !a && !b {
                break;
            }
        }
        exec::log_set_now(self.now());
    }

    fn snapshot(&self, name: &str) {
        let running: Vec<usize> = (0..self.depth)
            .filter(|k| self.hops[*k].handlers.iter().any(|h| h.0.is_some()))
            .map(|k| k + 1)
            .collect();
        emit(name, json!({"call_pending": self.call.is_some(), "handlers_alive": running, "in_transit": self.next_due().is_some(),
                          "before_deadline": (self.now() as i64) < self.head_dl}));
    }

    fn gate(&mut self, k: usize, open: bool) {
        if k == 0 || k > self.depth || self.links[k - 1].c.borrow().mode != vt::Mode::Independent {
            return;
        }
        emit("ChainGate", json!({"k": k, "open": open}));
        if open {
            self.links[k - 1].c.borrow_mut().add_credit(1_000_000);
        } else {
            self.links[k - 1].c.borrow_mut().credits = 0;
        }
    }

    fn quiesce(&mut self) {
        // phase 0: the transports grant what they owe (every gate opens)
        for k in 1..=self.depth {
            if self.links[k - 1].c.borrow().credits == 0 {
                self.gate(k, true);
            }
        }
        // phase 1: let everything in transit arrive (clock moves only to link delivery times)
        for _ in 0..50 {
            self.settle();
            let now = self.now();
            match self.next_due() {
                Some(t) if t > now => {
                    self.clock.advance(t - now);
                    emit("Tick", json!({"d": t - now}));
                }
                _ => break,
            }
        }
        self.settle();
        self.snapshot("ChainDrained");
        // phase 2: run the clock past the head deadline
        for _ in 0..50 {
            self.settle();
            let now = self.now();
            let busy = self.call.is_some() || self.hops.iter().any(|h| h.handlers.iter().any(|x| x.0.is_some()));
            let target = match self.next_due() {
                Some(t) if t > now => Some(t),
                _ if busy && self.head_dl < CLAMP && (self.head_dl as u64) >= now => Some(self.head_dl as u64 + 1),
                _ => None,
            };
            match target {
                Some(t) => {
                    self.clock.advance(t - now);
                    emit("Tick", json!({"d": t - now}));
                }
                None => break,
            }
        }
        self.settle();
        self.snapshot("ChainQuiescent");
    }

    fn step(&mut self, step: &Value) {
        exec::log_set_now(self.now());
        match step["a"].as_str().unwrap_or("") {
            "Start" => {
                if self.call.is_some() || self.head.is_none() {
                    return;
                }
                let dl = step["dl"].as_i64().unwrap_or(1000);
                let tr = step["tr"].as_u64().unwrap_or(77);
                let sampled = step["sampled"].as_bool().unwrap_or(false);
                self.head_dl = dl;
                HEAD_DL.with(|h| *h.borrow_mut() = dl);
                let mut ctx = context::current();
                ctx.deadline = self.clock.std_at(dl);
                ctx.trace_context = trace::Context {
                    trace_id: trace::TraceId::from(tr as u128),
                    span_id: trace::SpanId::from(7u64),
                    sampling_decision: if sampled { trace::SamplingDecision::Sampled } else { trace::SamplingDecision::Unsampled },
                };
                let ch = self.head.clone().unwrap();
                emit("ChainStart", json!({"depth": self.depth, "dl": dl.clamp(-CLAMP, CLAMP), "far": dl > CLAMP, "tr": format!("{:x}", tr), "span": "7", "sampled": sampled,
                                          "delays": self.links.iter().map(|l| l.delay).collect::<Vec<_>>()}));
                if self.otel {
                    // Under an OpenTelemetry layer Channel::call takes the trace context from the current span, not from
                    // its argument: the caller's trace id and sampling decision are supplied as the remote parent of the
                    // span the call is made in (exactly what a server does for its handlers).
                    use tracing::Instrument;
                    use tracing_opentelemetry::OpenTelemetrySpanExt;
                    let span = tracing::info_span!("head");
                    span.set_parent(opentelemetry::Context::new().with_remote_span_context(opentelemetry::trace::SpanContext::new(
                        opentelemetry::trace::TraceId::from(ctx.trace_context.trace_id),
                        opentelemetry::trace::SpanId::from(ctx.trace_context.span_id),
                        if sampled { opentelemetry::trace::TraceFlags::SAMPLED } else { opentelemetry::trace::TraceFlags::default() },
                        true,
                        opentelemetry::trace::TraceState::default(),
                    )));
                    self.call = Some(Box::pin(async move { ch.call(ctx, "q".to_string()).await }.instrument(span)));
                } else {
                    self.call = Some(Box::pin(async move { ch.call(ctx, "q".to_string()).await }));
                }
                self.cflag.set.store(true, std::sync::atomic::Ordering::SeqCst);
            }
            "Settle" => {
                self.settle();
                self.snapshot("ChainSettled");
            }
            "Tick" => {
                let d = step["d"].as_u64().unwrap_or(1);
                self.clock.advance(d);
                emit("Tick", json!({"d": d}));
            }
            "Abandon" => {
                if let Some(f) = self.call.take() {
                    emit("ChainAbandon", json!({}));
                    let _g = self.clock.rt.enter();
                    let _ = exec::catch(move || drop(f));
                }
            }
            "CompleteLeaf" => {
                emit("ChainCompleteLeaf", json!({}));
                let w = {
                    let mut c = self.ctl.borrow_mut();
                    c.leaf_done = true;
                    c.leaf_waker.take()
                };
                if let Some(w) = w {
                    w.wake();
                }
            }
            "PollOnce" => {
                self.poll_all();
            }
            "GateClose" => self.gate(step["k"].as_u64().unwrap_or(0) as usize, false),
            "GateOpen" => self.gate(step["k"].as_u64().unwrap_or(0) as usize, true),
            "Deliver" => {
                self.deliver();
            }
            "Quiesce" => self.quiesce(),
            _ => {}
        }
    }
}

pub fn run(a: &Args) -> Value {
    let mut scheds: Vec<Sched> = a.sched.as_deref().map(crate::load_scheds).unwrap_or_default();
    let mut rng = StdRng::seed_from_u64(a.seed ^ 0xC4A1);
    exec::LOG_WAKES.store(false, std::sync::atomic::Ordering::Relaxed);
    let sub = a.opt_str("sub", "none");
    if sub == "otel-server" {
        use opentelemetry::trace::TracerProvider as _;
        use tracing_subscriber::prelude::*;
        let provider = opentelemetry_sdk::trace::TracerProvider::builder().build();
        let tracer = provider.tracer("vh");
        let d = tracing::Dispatch::new(tracing_subscriber::registry().with(tracing_opentelemetry::layer().with_tracer(tracer)));
        SERVER_DISPATCH.with(|s| *s.borrow_mut() = Some(d));
        // tracing-core caches a callsite's interest from the *current* default when only one dispatcher exists; a second
        // (inert) dispatcher makes it consult every live dispatcher, as a process with a global default would.
        std::mem::forget(tracing::Dispatch::new(tracing_subscriber::registry()));
    } else {
        crate::wire::install_subscriber(&sub);
    }
    for i in 0..a.random {
        let depth = rng.gen_range(1..=3u64);
        let delays: Vec<u64> = (0..depth).map(|_| [0u64, 0, 1, 3][rng.gen_range(0..4)]).collect();
        // 3 and 30 years: beyond the one-year cap of the deadline timers
        let dl = [5i64, 20, 1000, 1000, 94_608_000_000, 946_080_000_000][rng.gen_range(0..6)];
        // an untraced caller (trace id 0) in a third of the scenarios whose server side is traced
        let tr = if sub == "otel-server" && rng.gen_range(0..3) == 0 { 0 } else { rng.gen_range(1..1000u64) };
        let mut steps = vec![json!({"a":"Start","dl":dl,"tr":tr,"sampled":rng.gen_bool(0.5)})];
        let n = rng.gen_range(1..10);
        let mut abandoned = false;
        let gated: Vec<u64> = if rng.gen_bool(0.4) { vec![rng.gen_range(1..=depth)] } else { vec![] };
        for _ in 0..n {
            let r = rng.gen_range(0..100);
            if !gated.is_empty() && rng.gen_range(0..100) < 20 {
                steps.push(json!({"a": if rng.gen_bool(0.6) { "GateClose" } else { "GateOpen" }, "k": gated[0]}));
            }
            steps.push(if r < 35 {
                json!({"a":"PollOnce"})
            } else if r < 50 {
                json!({"a":"Deliver"})
            } else if r < 65 {
                json!({"a":"Settle"})
            } else if r < 80 {
                let d = [1u64, 1, 2, 5][rng.gen_range(0..4)];
                json!({"a":"Tick","d":d})
            } else if r < 90 && !abandoned {
                abandoned = true;
                json!({"a":"Abandon"})
            } else {
                json!({"a":"CompleteLeaf"})
            });
        }
        if dl > CLAMP {
            // nothing runs the clock to a deadline years away: the scenario ends the chain itself
            steps.push(json!({"a": "Settle"}));
            steps.push(if abandoned { json!({"a": "Settle"}) } else if rng.gen_bool(0.5) { json!({"a": "CompleteLeaf"}) } else { json!({"a": "Abandon"}) });
        }
        let usecur = sub.starts_with("otel") && rng.gen_bool(0.5);
        let extend = [0u64, 0, 0, 7, 1000][rng.gen_range(0..5)];
        scheds.push(Sched { id: format!("r{}", i), cfg: json!({"depth": depth, "delays": delays, "gated": gated, "usecur": usecur, "own": rng.gen_bool(0.4), "extend": extend}), steps, expect: None });
    }
    let mut index = vec![];
    for (si, s) in scheds.iter().enumerate() {
        let scn = si as u64 + 1;
        exec::log_begin_scenario(scn);
        let mut st = build(&s.cfg);
        st.otel = sub == "otel";
        emit("Reset", json!({"id": s.id, "depth": st.depth, "sub": sub}));
        for step in &s.steps {
            st.step(step);
        }
        st.quiesce();
        emit("EndScenario", json!({}));
        index.push(json!({"scn": scn, "id": s.id, "cfg": s.cfg, "steps": s.steps}));
        let _g = st.clock.rt.enter();
        exec::log_enable(false);
        let _ = exec::catch(|| {
            st.call.take();
            for h in st.hops.iter_mut() {
                h.handlers.clear();
                h.stream.take();
                h.dispatch.take();
            }
            st.head.take();
            CLIENTS.with(|c| c.borrow_mut().clear());
        });
        exec::log_enable(true);
        drop(_g);
    }
    json!({"family": "chain", "executed": scheds.len(), "steps": 0, "skipped_steps": 0, "mismatches": [], "index": index})
}
