//! Deterministic executor pieces: trace log, waker flags, virtual clock, panic capture.
//!
//! Nothing here is a tokio task.  A current-thread tokio runtime with a paused clock is only
//! *entered*; every future is owned by a scenario interpreter and polled by hand, and only when
//! its own waker flag is set.

use futures::task::ArcWake;
use serde_json::{json, Map, Value};
use std::{
    cell::RefCell,
    sync::{
        atomic::{AtomicBool, AtomicU64, Ordering},
        Arc,
    },
    task::Waker,
    time::Duration,
};

thread_local! {
    static LOG: RefCell<Logger> = RefCell::new(Logger::default());
}

#[derive(Default)]
pub struct Logger {
    pub lines: Vec<String>,
    pub seq: u64,
    pub scn: u64,
    pub now_ms: u64,
    pub task: String,
    pub enabled: bool,
}

/// Appends one event to the trace.  `fields` must be a JSON object.
pub fn emit(ev: &str, fields: Value) {
    LOG.with(|l| {
        let mut l = l.borrow_mut();
        if !l.enabled {
            return;
        }
        l.seq += 1;
        let mut m = Map::new();
        m.insert("ev".into(), json!(ev));
        m.insert("scn".into(), json!(l.scn));
        m.insert("seq".into(), json!(l.seq));
        m.insert("t".into(), json!(l.now_ms));
        m.insert("task".into(), json!(l.task.clone()));
        if let Value::Object(o) = fields {
            for (k, v) in o {
                m.insert(k, v);
            }
        }
        l.lines.push(Value::Object(m).to_string());
    });
}

pub fn log_enable(on: bool) {
    LOG.with(|l| l.borrow_mut().enabled = on);
}
pub fn log_begin_scenario(scn: u64) {
    LOG.with(|l| {
        let mut l = l.borrow_mut();
        l.scn = scn;
        l.now_ms = 0;
        l.task = "env".into();
    });
}
pub fn log_set_task(t: &str) -> String {
    LOG.with(|l| std::mem::replace(&mut l.borrow_mut().task, t.to_string()))
}
pub fn log_task() -> String {
    LOG.with(|l| l.borrow().task.clone())
}
pub fn log_set_now(ms: u64) {
    LOG.with(|l| l.borrow_mut().now_ms = ms);
}
pub fn log_now() -> u64 {
    LOG.with(|l| l.borrow().now_ms)
}
pub fn log_take() -> Vec<String> {
    LOG.with(|l| std::mem::take(&mut l.borrow_mut().lines))
}
pub fn log_len() -> usize {
    LOG.with(|l| l.borrow().lines.len())
}

/// A waker flag.  `wake` sets the flag and logs a `Wake` event (only on a 0 -> 1 edge, so a task
/// woken twice before it is polled is one logical wake-up).
pub struct Flag {
    pub name: String,
    pub set: AtomicBool,
    pub wakes: AtomicU64,
}

impl Flag {
    pub fn new(name: &str, initially: bool) -> Arc<Flag> {
        Arc::new(Flag {
            name: name.to_string(),
            set: AtomicBool::new(initially),
            wakes: AtomicU64::new(0),
        })
    }
    pub fn is_set(&self) -> bool {
        self.set.load(Ordering::SeqCst)
    }
    pub fn clear(&self) {
        self.set.store(false, Ordering::SeqCst)
    }
    pub fn waker(self: &Arc<Self>) -> Waker {
        futures::task::waker(self.clone())
    }
}

pub static LOG_WAKES: AtomicBool = AtomicBool::new(true);

impl ArcWake for Flag {
    fn wake_by_ref(arc_self: &Arc<Self>) {
        arc_self.wakes.fetch_add(1, Ordering::SeqCst);
        if !arc_self.set.swap(true, Ordering::SeqCst) && LOG_WAKES.load(Ordering::Relaxed) {
            emit("Wake", json!({"who": arc_self.name}));
        }
    }
}

/// The paused tokio runtime that provides the virtual clock.
pub struct Clock {
    pub rt: tokio::runtime::Runtime,
    pub t0: tokio::time::Instant,
}

impl Clock {
    pub fn new() -> Clock {
        let rt = tokio::runtime::Builder::new_current_thread()
            .enable_time()
            .start_paused(true)
            .build()
            .unwrap();
        let t0 = {
            let _g = rt.enter();
            tokio::time::Instant::now()
        };
        Clock { rt, t0 }
    }
    pub fn now_ms(&self) -> u64 {
        let _g = self.rt.enter();
        (tokio::time::Instant::now() - self.t0).as_millis() as u64
    }
    pub fn std_at(&self, ms: i64) -> std::time::Instant {
        let base = self.t0.into_std();
        if ms >= 0 {
            base + Duration::from_millis(ms as u64)
        } else {
            base.checked_sub(Duration::from_millis((-ms) as u64))
                .unwrap_or(base)
        }
    }
    pub fn ms_of(&self, i: std::time::Instant) -> i64 {
        let base = self.t0.into_std();
        if i >= base {
            (i - base).as_millis() as i64
        } else {
            -((base - i).as_millis() as i64)
        }
    }
    /// Advances the virtual clock; fires due tokio timers (which wake their registered wakers).
    pub fn advance(&self, ms: u64) {
        self.rt
            .block_on(tokio::time::advance(Duration::from_millis(ms)));
        log_set_now(self.now_ms());
    }
}

/// Runs `f`, converting a panic into `Err(message)`.
pub fn catch<R>(f: impl FnOnce() -> R) -> Result<R, String> {
    match std::panic::catch_unwind(std::panic::AssertUnwindSafe(f)) {
        Ok(r) => Ok(r),
        Err(p) => {
            let msg = if let Some(s) = p.downcast_ref::<&str>() {
                s.to_string()
            } else if let Some(s) = p.downcast_ref::<String>() {
                s.clone()
            } else {
                "panic".to_string()
            };
            Err(msg)
        }
    }
}

pub fn silence_panics() {
    std::panic::set_hook(Box::new(|_| {}));
}
