//! `vh` — conformance harness for the TLA+ specifications of tarpc.
//!
//! vh <family> [--sched FILE] [--random N] [--seed S] [--trace OUT] [--report OUT] [--opt k=v]...
//!
//! Reads schedules (one JSON object per line: {"id","cfg","steps"}), executes each against the
//! real tarpc objects, writes an ndjson event trace (validated by TLC) and a JSON report.

mod exec;
mod chain;
mod client;
mod hooks;
mod keys;
mod server;
mod stubs;
mod vtransport;
mod wire;
mod mem;
mod sys;

use serde_json::{json, Value};
use std::{collections::BTreeMap, io::Write};

pub struct Args {
    pub family: String,
    pub sched: Option<String>,
    pub random: u64,
    pub seed: u64,
    pub trace: Option<String>,
    pub report: Option<String>,
    pub opts: BTreeMap<String, String>,
}

pub struct Sched {
    pub id: String,
    pub cfg: Value,
    pub steps: Vec<Value>,
    /// Optional per-step predicted projections (from the TLA+ model), parallel to `steps`.
    pub expect: Option<Vec<Value>>,
}

impl Args {
    pub fn opt_u64(&self, k: &str, d: u64) -> u64 {
        self.opts.get(k).and_then(|v| v.parse().ok()).unwrap_or(d)
    }
    pub fn opt_str(&self, k: &str, d: &str) -> String {
        self.opts.get(k).cloned().unwrap_or_else(|| d.to_string())
    }
}

pub fn load_scheds(path: &str) -> Vec<Sched> {
    let text = std::fs::read_to_string(path).expect("read schedule file");
    let mut out = vec![];
    for (i, line) in text.lines().enumerate() {
        let line = line.trim();
        if line.is_empty() {
            continue;
        }
        let v: Value = serde_json::from_str(line).expect("schedule line is JSON");
        let id = v
            .get("id")
            .map(|x| match x {
                Value::String(s) => s.clone(),
                o => o.to_string(),
            })
            .unwrap_or_else(|| format!("s{}", i));
        out.push(Sched {
            id,
            cfg: v.get("cfg").cloned().unwrap_or(json!({})),
            steps: v
                .get("steps")
                .and_then(|s| s.as_array().cloned())
                .unwrap_or_default(),
            expect: v.get("expect").and_then(|s| s.as_array().cloned()),
        });
    }
    out
}

fn main() {
    let argv: Vec<String> = std::env::args().collect();
    if argv.len() < 2 {
        eprintln!("usage: vh <family> [options]");
        std::process::exit(2);
    }
    let mut a = Args {
        family: argv[1].clone(),
        sched: None,
        random: 0,
        seed: 0,
        trace: None,
        report: None,
        opts: BTreeMap::new(),
    };
    let mut i = 2;
    while i < argv.len() {
        let need = |i: usize| argv.get(i + 1).cloned().expect("missing option value");
        match argv[i].as_str() {
            "--sched" => {
                a.sched = Some(need(i));
                i += 2
            }
            "--random" => {
                a.random = need(i).parse().unwrap();
                i += 2
            }
            "--seed" => {
                a.seed = need(i).parse().unwrap();
                i += 2
            }
            "--trace" => {
                a.trace = Some(need(i));
                i += 2
            }
            "--report" => {
                a.report = Some(need(i));
                i += 2
            }
            "--opt" => {
                let kv = need(i);
                let (k, v) = kv.split_once('=').expect("--opt k=v");
                a.opts.insert(k.to_string(), v.to_string());
                i += 2
            }
            o => {
                eprintln!("unknown option {o}");
                std::process::exit(2);
            }
        }
    }
    exec::silence_panics();
    exec::log_enable(true);
    let report: Value = match a.family.as_str() {
        "keys" => keys::run(&a),
        "client" => client::run(&a),
        "server" => server::run(&a),
        "hooks" => hooks::run(&a),
        "stubs" => stubs::run(&a),
        "wire" => wire::run(&a),
        "mem" => mem::run(&a),
        "chain" => chain::run(&a),
        "sys" => sys::run(&a),
        "floodchild" => wire::flood_child(&a),
        f => {
            eprintln!("unknown family {f}");
            std::process::exit(2);
        }
    };
    if let Some(p) = &a.trace {
        let mut f = std::io::BufWriter::new(std::fs::File::create(p).expect("create trace"));
        for l in exec::log_take() {
            writeln!(f, "{}", l).unwrap();
        }
    }
    if let Some(p) = &a.report {
        std::fs::write(p, serde_json::to_string_pretty(&report).unwrap()).unwrap();
    } else {
        println!("{}", report);
    }
}
