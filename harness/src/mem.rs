//! Family `mem`: the in-memory transports tarpc::transport::channel::{unbounded, bounded}, one
//! direction (A writes, B reads), driven step by step along schedules enumerated from
//! spec/Chan.tla (and seeded random ones).  Trace judged by spec/Trace_Mem.tla (property C15).
//!
//! cfg: {"bounded": bool, "cap": N, "dir": "c2s"|"s2c"}
//! steps: {"a":"ready"} {"a":"send"} {"a":"flush"} {"a":"close"} {"a":"recv"} {"a":"dropA"} {"a":"dropB"}
//! A step that the Sink contract forbids (send without a readiness grant) or that has no target
//! any more is skipped.  Every step carries the model's predicted result in `res`; a difference is
//! reported as drift (informational).

use crate::{
    exec::{self, emit, Clock},
    wire, Args, Sched,
};
use futures::{task::Context, Sink, Stream};
use rand::{rngs::StdRng, Rng, SeedableRng};
use serde_json::{json, Value};
use std::{pin::Pin, task::Poll};
use tarpc::{ClientMessage, Response};

type W<SI> = Pin<Box<dyn Sink<SI, Error = tarpc::transport::channel::ChannelError>>>;
type R<I> = Pin<Box<dyn Stream<Item = Result<I, tarpc::transport::channel::ChannelError>>>>;

const C2S: [&str; 6] = ["req", "req-idmax", "cancel", "req-unicode", "req-large", "req-past"];
const S2C: [&str; 5] = ["resp", "err:NotFound", "err:OutOfMemory", "resp-large", "resp-idmax"];

fn drive<SI, I>(
    clock: &Clock,
    s: &Sched,
    mut w: Option<W<SI>>,
    mut r: Option<R<I>>,
    make: &dyn Fn(u64) -> SI,
    dw: &dyn Fn(&SI) -> Value,
    dr: &dyn Fn(&I) -> Value,
) -> (Vec<Value>, Option<Value>) {
    let flag = exec::Flag::new("m", true);
    let _g = clock.rt.enter();
    let mut credit = false;
    let mut n = 0u64;
    let mut done = vec![];
    let mut mismatch: Option<Value> = None;
    for (idx, step) in s.steps.iter().enumerate() {
        let a = step["a"].as_str().unwrap_or("");
        let waker = flag.waker();
        let mut cx = Context::from_waker(&waker);
        let mut got: Option<String> = None;
        match a {
            "ready" => {
                if let Some(wr) = w.as_mut() {
                    let res = match exec::catch(|| wr.as_mut().poll_ready(&mut cx)) {
                        Ok(Poll::Ready(Ok(()))) => {
                            credit = true;
                            "ok"
                        }
                        Ok(Poll::Ready(Err(_))) => "err",
                        Ok(Poll::Pending) => "pending",
                        Err(m) => {
                            emit("Panic", json!({"who": "writer", "msg": m}));
                            "panic"
                        }
                    };
                    emit("MReady", json!({"res": res}));
                    got = Some(res.to_string());
                }
            }
            "send" => {
                if let (Some(wr), true) = (w.as_mut(), credit) {
                    credit = false;
                    n += 1;
                    let item = make(n);
                    let d = dw(&item);
                    let res = match exec::catch(|| wr.as_mut().start_send(item)) {
                        Ok(Ok(())) => "ok",
                        Ok(Err(_)) => "err",
                        Err(m) => {
                            emit("Panic", json!({"who": "writer", "msg": m}));
                            "panic"
                        }
                    };
                    emit("MSend", json!({"res": res, "i": n, "d": d}));
                    got = Some(res.to_string());
                }
            }
            "flush" | "close" => {
                if let Some(wr) = w.as_mut() {
                    let r0 = if a == "flush" {
                        exec::catch(|| wr.as_mut().poll_flush(&mut cx))
                    } else {
                        exec::catch(|| wr.as_mut().poll_close(&mut cx))
                    };
                    let res = match r0 {
                        Ok(Poll::Ready(Ok(()))) => "ok",
                        Ok(Poll::Ready(Err(_))) => "err",
                        Ok(Poll::Pending) => "pending",
                        Err(m) => {
                            emit("Panic", json!({"who": "writer", "msg": m}));
                            "panic"
                        }
                    };
                    emit(if a == "flush" { "MFlush" } else { "MClose" }, json!({"res": res}));
                    if a == "close" && res == "ok" {
                        credit = false;
                    }
                    got = Some(res.to_string());
                }
            }
            "recv" => {
                if let Some(rd) = r.as_mut() {
                    match exec::catch(|| rd.as_mut().poll_next(&mut cx)) {
                        Ok(Poll::Ready(Some(Ok(item)))) => {
                            emit("MRecv", json!({"res": "item", "d": dr(&item)}));
                            got = Some("item".into());
                        }
                        Ok(Poll::Ready(Some(Err(_)))) => {
                            emit("MRecv", json!({"res": "err"}));
                            got = Some("err".into());
                        }
                        Ok(Poll::Ready(None)) => {
                            emit("MRecv", json!({"res": "eos"}));
                            got = Some("eos".into());
                            r = None; // a finished stream is not polled again
                            emit("MDrop", json!({"who": "b"}));
                        }
                        Ok(Poll::Pending) => {
                            emit("MRecv", json!({"res": "pending"}));
                            got = Some("pending".into());
                        }
                        Err(m) => emit("Panic", json!({"who": "reader", "msg": m})),
                    }
                }
            }
            "dropA" => {
                if let Some(x) = w.take() {
                    emit("MDrop", json!({"who": "a"}));
                    let _ = exec::catch(move || drop(x));
                    credit = false;
                }
            }
            "dropB" => {
                if let Some(x) = r.take() {
                    emit("MDrop", json!({"who": "b"}));
                    let _ = exec::catch(move || drop(x));
                }
            }
            _ => {}
        }
        if let Some(g) = got {
            done.push(step.clone());
            if let Some(exp) = step.get("res").and_then(|v| v.as_str()) {
                if exp != g && mismatch.is_none() {
                    mismatch = Some(json!({"step": idx, "action": step, "expected": exp, "got": g}));
                }
            }
        } else if a.starts_with("drop") {
            done.push(step.clone());
        }
    }
    (done, mismatch)
}

fn run_one(clock: &Clock, s: &Sched) -> (Vec<Value>, Option<Value>) {
    let bounded = s.cfg["bounded"].as_bool().unwrap_or(false);
    let cap = s.cfg["cap"].as_u64().unwrap_or(1) as usize;
    let c2s = s.cfg["dir"].as_str().unwrap_or("c2s") == "c2s";
    emit("Reset", json!({"id": s.id, "bounded": bounded, "cap": cap, "dir": if c2s { "c2s" } else { "s2c" }}));
    let dcm = |m: &ClientMessage<String>| wire::describe_cm(clock, m);
    let drs = |m: &Response<String>| wire::describe_resp(m);
    let out = if c2s {
        let mk = |i: u64| wire::client_msg(clock, C2S[(i as usize - 1) % C2S.len()], i);
        if bounded {
            let (a, b) = tarpc::transport::channel::bounded::<Response<String>, ClientMessage<String>>(cap);
            drive(clock, s, Some(Box::pin(a)), Some(Box::pin(b)), &mk, &dcm, &dcm)
        } else {
            let (a, b) = tarpc::transport::channel::unbounded::<Response<String>, ClientMessage<String>>();
            drive(clock, s, Some(Box::pin(a)), Some(Box::pin(b)), &mk, &dcm, &dcm)
        }
    } else {
        let mk = |i: u64| wire::response_msg(S2C[(i as usize - 1) % S2C.len()], i);
        if bounded {
            let (b, a) = tarpc::transport::channel::bounded::<Response<String>, ClientMessage<String>>(cap);
            drive(clock, s, Some(Box::pin(a)), Some(Box::pin(b)), &mk, &drs, &drs)
        } else {
            let (b, a) = tarpc::transport::channel::unbounded::<Response<String>, ClientMessage<String>>();
            drive(clock, s, Some(Box::pin(a)), Some(Box::pin(b)), &mk, &drs, &drs)
        }
    };
    emit("EndScenario", json!({}));
    out
}

pub fn run(a: &Args) -> Value {
    let mut scheds: Vec<Sched> = a.sched.as_deref().map(crate::load_scheds).unwrap_or_default();
    let mut rng = StdRng::seed_from_u64(a.seed ^ 0x4E4D);
    exec::LOG_WAKES.store(false, std::sync::atomic::Ordering::Relaxed);
    for i in 0..a.random {
        let n = rng.gen_range(1..25);
        let mut steps = vec![];
        for _ in 0..n {
            let r = rng.gen_range(0..100);
            steps.push(json!({"a": if r < 25 { "ready" } else if r < 50 { "send" } else if r < 75 { "recv" } else if r < 83 { "flush" }
                                   else if r < 88 { "close" } else if r < 94 { "dropA" } else { "dropB" }}));
        }
        let dir = ["c2s", "s2c"][rng.gen_range(0..2)];
        scheds.push(Sched {
            id: format!("r{}", i),
            cfg: json!({"bounded": rng.gen_bool(0.5), "cap": rng.gen_range(1..3u64), "dir": dir}),
            steps,
            expect: None,
        });
    }
    let clock = Clock::new();
    let mut index = vec![];
    let mut mismatches = vec![];
    for (si, s) in scheds.iter().enumerate() {
        let scn = si as u64 + 1;
        exec::log_begin_scenario(scn);
        let (done, mm) = run_one(&clock, s);
        if let Some(m) = mm {
            mismatches.push(json!({"id": s.id, "scn": scn, "cfg": s.cfg, "at": m}));
        }
        index.push(json!({"scn": scn, "id": s.id, "cfg": s.cfg, "steps": done}));
    }
    json!({"family": "mem", "executed": scheds.len(), "steps": 0, "skipped_steps": 0, "mismatches": mismatches, "index": index})
}
