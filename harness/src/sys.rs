//! Family `sys`: the whole stack as an application uses it, under a real tokio runtime
//! (specification spec/System.tla, observer spec/Trace_Sys.tla).
//!
//! listener (stream of server transports)
//!   -> BaseChannel::new -> Incoming::max_channels_per_key(n, key) -> Incoming::max_concurrent_requests_per_channel(L)
//!   -> Incoming::execute(serve) -> spawn_incoming           (every channel and every request is a spawned tokio task)
//! clients: client::new(cfg, transport).spawn(); every call is a spawned task that owns a clone of the handle.
//!
//! Unlike the other families nothing is polled by hand: the current-thread runtime (paused clock) runs every task that is
//! ready until nothing makes progress any more (`Run`), which is what "the system is driven" means for an application.
//! Transports are the shipped in-memory unbounded channels, wrapped in a tap that logs what crosses them.
//!
//! Steps: {"a":"Connect","k":K,"key":KEY} {"a":"Call","c":C,"k":K,"dl":MS} {"a":"Complete","c":C} {"a":"Abandon","c":C}
//!        {"a":"DropClient","k":K} {"a":"Tick","d":MS} {"a":"Run"}
//! cfg: {"n":N (0 = no per-key limit), "limit":L (-1 = none), "maxInFlight":M, "buf":B, "respBuf":R}

use crate::{
    exec::{self, emit, Clock},
    Args, Sched,
};
use futures::{channel::mpsc as fmpsc, Future, Sink, Stream, StreamExt};
use rand::{rngs::StdRng, Rng, SeedableRng};
use serde_json::{json, Value};
use std::{
    collections::{BTreeMap, BTreeSet},
    io,
    pin::Pin,
    sync::{Arc, Mutex},
    task::{Context, Poll, Waker},
    time::Duration,
};
use tarpc::{
    client::{self, RpcError},
    context,
    server::{self, incoming::Incoming, BaseChannel, Channel, Serve},

    ClientMessage, Response, ServerError,
};

type Req = String;
type Resp = String;

/// Any transport, with its error mapped to `io::Error`, behind one type (the accept pipeline's type must not depend on it).
trait DynTransport<Item, SinkItem>: Stream<Item = Result<Item, io::Error>> + Sink<SinkItem, Error = io::Error> {}
impl<T, Item, SinkItem> DynTransport<Item, SinkItem> for T where T: Stream<Item = Result<Item, io::Error>> + Sink<SinkItem, Error = io::Error> {}
type DynT<Item, SinkItem> = Pin<Box<dyn DynTransport<Item, SinkItem> + Send>>;

#[pin_project::pin_project]
struct ErrMap<T>(#[pin] T);
impl<T, I, E> Stream for ErrMap<T>
where
    T: Stream<Item = Result<I, E>>,
    E: Into<Box<dyn std::error::Error + Send + Sync>>,
{
    type Item = Result<I, io::Error>;
    fn poll_next(self: Pin<&mut Self>, cx: &mut Context<'_>) -> Poll<Option<Self::Item>> {
        self.project().0.poll_next(cx).map(|o| o.map(|r| r.map_err(io::Error::other)))
    }
}
impl<T, SI> Sink<SI> for ErrMap<T>
where
    T: Sink<SI>,
    T::Error: Into<Box<dyn std::error::Error + Send + Sync>>,
{
    type Error = io::Error;
    fn poll_ready(self: Pin<&mut Self>, cx: &mut Context<'_>) -> Poll<Result<(), io::Error>> {
        self.project().0.poll_ready(cx).map_err(io::Error::other)
    }
    fn start_send(self: Pin<&mut Self>, item: SI) -> Result<(), io::Error> {
        self.project().0.start_send(item).map_err(io::Error::other)
    }
    fn poll_flush(self: Pin<&mut Self>, cx: &mut Context<'_>) -> Poll<Result<(), io::Error>> {
        self.project().0.poll_flush(cx).map_err(io::Error::other)
    }
    fn poll_close(self: Pin<&mut Self>, cx: &mut Context<'_>) -> Poll<Result<(), io::Error>> {
        self.project().0.poll_close(cx).map_err(io::Error::other)
    }
}

/// A transport wrapper that logs the items crossing it, its first poll and its drop.
struct Tap<Item, SinkItem> {
    side: &'static str,
    conn: u64,
    key: u64,
    polled: bool,
    closing: bool,
    /// one-shot fault armed by the step ArmServer: the next operation of that kind reports an error (later ones would succeed)
    arm: Arc<Mutex<Option<String>>>,
    /// a fault was reported: whoever owns the transport must not use it any more
    failed: bool,
    uses_after_fail: u32,
    inner: DynT<Item, SinkItem>,
}
impl<Item, SinkItem> Tap<Item, SinkItem> {
    fn used_after_fail(&mut self, op: &str) {
        self.uses_after_fail += 1;
        if self.uses_after_fail == 1 {
            emit("SysUseAfterFail", json!({"side": self.side, "k": self.conn, "op": op}));
        }
        if self.uses_after_fail == 5000 {
            // an owner that never returns to the executor: end its task (the runtime catches the panic) instead of hanging the harness
            emit("SysSpin", json!({"side": self.side, "k": self.conn, "op": op}));
            panic!("vh: transport used 5000 times after it reported a failure");
        }
    }
    fn fault(&mut self, op: &str) -> Option<io::Error> {
        if self.failed {
            self.used_after_fail(op);
        }
        let hit = {
            let mut a = self.arm.lock().unwrap();
            if a.as_deref() == Some(op) {
                *a = None;
                true
            } else {
                false
            }
        };
        if hit {
            self.failed = true;
            emit("SysFault", json!({"side": self.side, "k": self.conn, "op": op}));
            Some(io::Error::new(io::ErrorKind::ConnectionReset, format!("injected {} fault", op)))
        } else {
            None
        }
    }
}

trait Describe {
    fn describe(&self) -> Value;
}
impl Describe for ClientMessage<Req> {
    fn describe(&self) -> Value {
        match self {
            ClientMessage::Request(r) => json!({"kind": "req", "id": r.id, "body": r.message, "c": parse_body(&r.message).1}),
            ClientMessage::Cancel { request_id, .. } => json!({"kind": "cancel", "id": request_id, "body": "", "c": 0}),
            _ => json!({"kind": "other", "id": 0, "body": "", "c": 0}),
        }
    }
}
impl Describe for Response<Resp> {
    fn describe(&self) -> Value {
        match &self.message {
            Ok(b) => json!({"kind": "resp", "id": self.request_id, "body": b, "c": 0}),
            Err(e) => json!({"kind": "resperr", "id": self.request_id, "body": format!("{:?}", e.kind), "c": 0}),
        }
    }
}

impl<Item: Describe, SinkItem> Stream for Tap<Item, SinkItem> {
    type Item = Result<Item, io::Error>;
    fn poll_next(self: Pin<&mut Self>, cx: &mut Context<'_>) -> Poll<Option<Self::Item>> {
        let this = self.get_mut();
        if !this.polled {
            this.polled = true;
            emit("SysFirstPoll", json!({"side": this.side, "k": this.conn}));
        }
        if let Some(e) = this.fault("next") {
            return Poll::Ready(Some(Err(e)));
        }
        let r = this.inner.as_mut().poll_next(cx);
        match &r {
            Poll::Ready(Some(Ok(it))) => {
                let mut v = it.describe();
                v["side"] = json!(this.side);
                v["k"] = json!(this.conn);
                emit("SysWireIn", v);
            }
            Poll::Ready(Some(Err(e))) => emit("SysWireErr", json!({"side": this.side, "k": this.conn, "msg": e.to_string()})),
            Poll::Ready(None) => emit("SysWireEof", json!({"side": this.side, "k": this.conn})),
            _ => {}
        }
        r
    }
}
impl<Item, SinkItem: Describe> Sink<SinkItem> for Tap<Item, SinkItem> {
    type Error = io::Error;
    fn poll_ready(self: Pin<&mut Self>, cx: &mut Context<'_>) -> Poll<Result<(), io::Error>> {
        let this = self.get_mut();
        if let Some(e) = this.fault("ready") {
            return Poll::Ready(Err(e));
        }
        this.inner.as_mut().poll_ready(cx)
    }
    fn start_send(self: Pin<&mut Self>, item: SinkItem) -> Result<(), io::Error> {
        let this = self.get_mut();
        if this.failed {
            this.used_after_fail("send");
        }
        let mut v = item.describe();
        v["side"] = json!(this.side);
        v["k"] = json!(this.conn);
        let r = this.inner.as_mut().start_send(item);
        v["ok"] = json!(r.is_ok());
        emit("SysWireOut", v);
        r
    }
    fn poll_flush(self: Pin<&mut Self>, cx: &mut Context<'_>) -> Poll<Result<(), io::Error>> {
        let this = self.get_mut();
        if let Some(e) = this.fault("flush") {
            return Poll::Ready(Err(e));
        }
        this.inner.as_mut().poll_flush(cx)
    }
    fn poll_close(self: Pin<&mut Self>, cx: &mut Context<'_>) -> Poll<Result<(), io::Error>> {
        let this = self.get_mut();
        if !this.closing {
            // the owner starts closing the write side: nothing may be written from here on
            this.closing = true;
            emit("SysWireClose", json!({"side": this.side, "k": this.conn}));
        }
        this.inner.as_mut().poll_close(cx)
    }
}
impl<Item, SinkItem> Drop for Tap<Item, SinkItem> {
    fn drop(&mut self) {
        emit("SysTransportDrop", json!({"side": self.side, "k": self.conn, "polled": self.polled}));
    }
}

/// What the watchdog thread knows about the scenario in progress (the event log itself is thread-local to the main thread).
struct Watch {
    id: String,
    cfg: Value,
    steps: Vec<Value>,
    since: std::time::Instant,
}
static WATCH: Mutex<Option<Watch>> = Mutex::new(None);

/// A spawned task that never returns to the runtime would hang the harness for good.  The watchdog turns that into a result: it
/// replaces the run's output by the hung scenario alone - `Reset`, `SysHang` - and ends the process; Trace_Sys judges it like any
/// other trace ("a task never returned control to the runtime").
fn start_watchdog(a: &Args) {
    let limit = std::time::Duration::from_secs(a.opt_u64("hang_s", 180));
    let (trace, report) = (a.trace.clone(), a.report.clone());
    std::thread::spawn(move || loop {
        std::thread::sleep(std::time::Duration::from_millis(250));
        let g = WATCH.lock().unwrap();
        if let Some(w) = g.as_ref() {
            if w.since.elapsed() > limit {
                let reset = json!({"ev": "Reset", "scn": 1, "seq": 1, "t": 0, "task": "env",
                                   "sub": w.cfg["sub"].as_str().unwrap_or("none"), "transport": w.cfg["transport"].as_str().unwrap_or("mem"),
                                   "n": w.cfg["n"].as_u64().unwrap_or(0), "limit": w.cfg["limit"].as_i64().unwrap_or(-1),
                                   "maxInFlight": w.cfg["maxInFlight"].as_u64().unwrap_or(1000), "buf": w.cfg["buf"].as_u64().unwrap_or(100)});
                let hang = json!({"ev": "SysHang", "scn": 1, "seq": 2, "t": 0, "task": "env", "secs": limit.as_secs()});
                if let Some(p) = &trace {
                    let _ = std::fs::write(p, format!("{}\n{}\n", reset, hang));
                }
                let rep = json!({"family": "sys", "executed": 1, "panics": 0, "hang": true, "mismatches": [],
                                 "index": [{"scn": 1, "id": w.id, "cfg": w.cfg, "steps": w.steps}]});
                match &report {
                    Some(p) => {
                        let _ = std::fs::write(p, serde_json::to_string_pretty(&rep).unwrap());
                    }
                    None => println!("{}", rep),
                }
                std::process::exit(0);
            }
        }
    });
}
fn watch_begin(id: &str, cfg: &Value, steps: &[Value]) {
    *WATCH.lock().unwrap() = Some(Watch { id: id.to_string(), cfg: cfg.clone(), steps: steps.to_vec(), since: std::time::Instant::now() });
}
fn watch_step(s: &Value) {
    if let Some(w) = WATCH.lock().unwrap().as_mut() {
        w.steps.push(s.clone());
    }
}
fn watch_end() {
    *WATCH.lock().unwrap() = None;
}

type STap = Tap<ClientMessage<Req>, Response<Resp>>;
type CTap = Tap<Response<Resp>, ClientMessage<Req>>;

#[derive(Default)]
struct Ctl {
    /// calls whose handler may finish
    gate: BTreeSet<u64>,
    wakers: BTreeMap<u64, Waker>,
    next_inc: u64,
}

#[derive(Clone)]
struct SysServe {
    ctl: Arc<Mutex<Ctl>>,
}
struct GateFut {
    c: u64,
    ctl: Arc<Mutex<Ctl>>,
}
impl Future for GateFut {
    type Output = ();
    fn poll(self: Pin<&mut Self>, cx: &mut Context<'_>) -> Poll<()> {
        let mut g = self.ctl.lock().unwrap();
        if g.gate.contains(&self.c) {
            Poll::Ready(())
        } else {
            g.wakers.insert(self.c, cx.waker().clone());
            Poll::Pending
        }
    }
}
struct DropLog {
    c: u64,
    inc: u64,
    finished: bool,
}
impl Drop for DropLog {
    fn drop(&mut self) {
        emit("SysHandlerEnd", json!({"c": self.c, "inc": self.inc, "finished": self.finished}));
    }
}
/// "k<conn>c<call>" -> (conn, call)
fn parse_body(b: &str) -> (u64, u64) {
    let b = b.strip_prefix('k').unwrap_or("0c0");
    let mut it = b.split('c');
    let k = it.next().and_then(|x| x.parse().ok()).unwrap_or(0);
    let c = it.next().and_then(|x| x.parse().ok()).unwrap_or(0);
    (k, c)
}
impl Serve for SysServe {
    type Req = Req;
    type Resp = Resp;
    async fn serve(self, ctx: context::Context, req: Req) -> Result<Resp, ServerError> {
        let (k, c) = parse_body(&req);
        let inc = {
            let mut g = self.ctl.lock().unwrap();
            g.next_inc += 1;
            g.next_inc
        };
        emit(
            "SysHandlerStart",
            json!({"k": k, "c": c, "inc": inc, "tr": format!("{:x}", u128::from(ctx.trace_context.trace_id)),
                   "sampled": ctx.trace_context.sampling_decision == tarpc::trace::SamplingDecision::Sampled}),
        );
        let mut guard = DropLog { c, inc, finished: false };
        GateFut { c, ctl: self.ctl.clone() }.await;
        guard.finished = true;
        Ok(format!("r{}.{}", c, inc))
    }
}

struct World {
    clock: Clock,
    ctl: Arc<Mutex<Ctl>>,
    listener: Option<fmpsc::UnboundedSender<STap>>,
    clients: BTreeMap<u64, client::Channel<Req, Resp>>,
    connected: BTreeSet<u64>,
    calls: BTreeMap<u64, tokio::task::JoinHandle<()>>,
    resolved: Arc<Mutex<BTreeSet<u64>>>,
    abandoned: BTreeSet<u64>,
    call_conn: BTreeMap<u64, u64>,
    sarms: BTreeMap<u64, Arc<Mutex<Option<String>>>>,
    cfg: Value,
    otel: bool,
}

fn res_of(r: &Result<Resp, RpcError>) -> (String, String) {
    match r {
        Ok(b) => ("ok".into(), b.clone()),
        Err(RpcError::DeadlineExceeded) => ("deadline".into(), String::new()),
        Err(RpcError::Shutdown) => ("shutdown".into(), String::new()),
        Err(RpcError::Send(_)) => ("send".into(), String::new()),
        Err(RpcError::Channel(_)) => ("channel".into(), String::new()),
        Err(RpcError::Server(e)) if e.kind == std::io::ErrorKind::WouldBlock => ("throttled".into(), e.detail.clone()),
        Err(RpcError::Server(e)) => ("server".into(), format!("{:?}", e.kind)),
    }
}

impl World {
    fn new(cfg: &Value) -> World {
        let clock = Clock::new();
        let ctl = Arc::new(Mutex::new(Ctl::default()));
        let (ltx, lrx) = fmpsc::unbounded::<STap>();
        let n = cfg["n"].as_u64().unwrap_or(0) as u32;
        let limit = cfg["limit"].as_i64().unwrap_or(-1);
        let resp_buf = cfg["respBuf"].as_u64().unwrap_or(100) as usize;
        let serve = SysServe { ctl: ctl.clone() };
        let key = |ch: &BaseChannel<Req, Resp, STap>| {
            let t = ch.transport();
            emit("SysArrive", json!({"k": t.conn, "key": t.key}));
            t.key
        };
        let base = lrx.map(move |t| BaseChannel::new(server::Config { pending_response_buffer: resp_buf }, t));
        {
            let _g = clock.rt.enter();
            // the four shapes of the accept pipeline (the combinators change the stream's type)
            match (n > 0, limit >= 0) {
                (true, true) => {
                    tokio::spawn(server::incoming::spawn_incoming(
                        base.max_channels_per_key(n, key)
                            .inspect(|ch| emit("SysAdmitted", json!({"k": ch.transport().conn})))
                            .max_concurrent_requests_per_channel(limit as usize)
                            .execute(serve),
                    ));
                }
                (true, false) => {
                    tokio::spawn(server::incoming::spawn_incoming(
                        base.max_channels_per_key(n, key)
                            .inspect(|ch| emit("SysAdmitted", json!({"k": ch.transport().conn})))
                            .execute(serve),
                    ));
                }
                (false, true) => {
                    tokio::spawn(server::incoming::spawn_incoming(
                        base.inspect(move |ch| {
                            key(ch);
                            emit("SysAdmitted", json!({"k": ch.transport().conn}));
                        })
                        .max_concurrent_requests_per_channel(limit as usize)
                        .execute(serve),
                    ));
                }
                (false, false) => {
                    tokio::spawn(server::incoming::spawn_incoming(
                        base.inspect(move |ch| {
                            key(ch);
                            emit("SysAdmitted", json!({"k": ch.transport().conn}));
                        })
                        .execute(serve),
                    ));
                }
            }
        }
        World {
            clock,
            ctl,
            listener: Some(ltx),
            clients: BTreeMap::new(),
            connected: BTreeSet::new(),
            calls: BTreeMap::new(),
            resolved: Arc::new(Mutex::new(BTreeSet::new())),
            abandoned: BTreeSet::new(),
            call_conn: BTreeMap::new(),
            sarms: BTreeMap::new(),
            cfg: cfg.clone(),
            otel: cfg["sub"] == "otel",
        }
    }

    /// Runs every ready task until nothing makes progress any more.
    fn run(&mut self) {
        let mut quiet = 0;
        let mut rounds = 0;
        while quiet < 2 && rounds < 400 {
            let before = exec::log_len();
            self.clock.rt.block_on(async {
                for _ in 0..40 {
                    tokio::task::yield_now().await;
                }
            });
            if exec::log_len() == before {
                quiet += 1;
            } else {
                quiet = 0;
            }
            rounds += 1;
        }
        self.calls.retain(|_, h| !h.is_finished());
        emit("SysIdle", json!({"busy": rounds >= 400}));
    }

    fn step(&mut self, s: &Value) {
        let a = s["a"].as_str().unwrap_or("");
        exec::log_set_now(self.clock.now_ms());
        match a {
            "Connect" => {
                let k = s["k"].as_u64().unwrap();
                let key = s["key"].as_u64().unwrap_or(1);
                if self.connected.contains(&k) {
                    return;
                }
                self.connected.insert(k);
                // the medium: the in-memory channel, or the serde transport (JSON / bincode) over an in-process duplex pipe
                let (ct, st): (DynT<Response<Resp>, ClientMessage<Req>>, DynT<ClientMessage<Req>, Response<Resp>>) =
                    match self.cfg["transport"].as_str().unwrap_or("mem") {
                        "json" | "bincode" => {
                            use tarpc::tokio_serde::formats::{Bincode, Json};
                            use tarpc::tokio_util::codec::{Framed, LengthDelimitedCodec};
                            let (a, b) = tokio::io::duplex(1 << 16);
                            let (fa, fb) = (Framed::new(a, LengthDelimitedCodec::new()), Framed::new(b, LengthDelimitedCodec::new()));
                            if self.cfg["transport"] == "json" {
                                (Box::pin(ErrMap(tarpc::serde_transport::new(fa, Json::default()))), Box::pin(ErrMap(tarpc::serde_transport::new(fb, Json::default()))))
                            } else {
                                (Box::pin(ErrMap(tarpc::serde_transport::new(fa, Bincode::default()))), Box::pin(ErrMap(tarpc::serde_transport::new(fb, Bincode::default()))))
                            }
                        }
                        _ => {
                            // unbounded::<SinkItem, Item>() -> (UnboundedChannel<SinkItem, Item>, UnboundedChannel<Item, SinkItem>)
                            let (ct, st) = tarpc::transport::channel::unbounded::<Response<Resp>, ClientMessage<Req>>();
                            (Box::pin(ErrMap(ct)), Box::pin(ErrMap(st)))
                        }
                    };
                let sarm = Arc::new(Mutex::new(None));
                self.sarms.insert(k, sarm.clone());
                let stap: STap = Tap { side: "s", conn: k, key, polled: false, closing: false, arm: sarm, failed: false, uses_after_fail: 0, inner: st };
                let ctap: CTap = Tap { side: "c", conn: k, key, polled: false, closing: false, arm: Arc::new(Mutex::new(None)), failed: false, uses_after_fail: 0, inner: ct };
                emit("SysConnect", json!({"k": k, "key": key}));
                let mut ccfg = client::Config::default();
                ccfg.max_in_flight_requests = self.cfg["maxInFlight"].as_u64().unwrap_or(1000) as usize;
                ccfg.pending_request_buffer = self.cfg["buf"].as_u64().unwrap_or(100) as usize;
                let ch = {
                    let _g = self.clock.rt.enter();
                    client::new(ccfg, ctap).spawn()
                };
                self.clients.insert(k, ch);
                if let Some(l) = &self.listener {
                    let _ = l.unbounded_send(stap);
                }
            }
            "Call" => {
                let c = s["c"].as_u64().unwrap();
                let k = s["k"].as_u64().unwrap();
                let dl = s["dl"].as_u64().unwrap_or(10_000);
                let Some(ch) = self.clients.get(&k).cloned() else { return };
                if self.call_conn.contains_key(&c) {
                    return;
                }
                self.call_conn.insert(c, k);
                let now = self.clock.now_ms();
                // every call has its own trace id (unequal halves) and alternating sampling decision
                let trace_id = ((0x5151u128 + c as u128) << 64) | (1000 + c as u128);
                let sampled = c % 2 == 0;
                emit("SysCall", json!({"c": c, "k": k, "dl": now + dl, "tr": format!("{:x}", trace_id), "sampled": sampled}));
                let mut ctx = context::current();
                ctx.deadline = self.clock.std_at((now + dl) as i64);
                ctx.trace_context = tarpc::trace::Context {
                    trace_id: tarpc::trace::TraceId::from(trace_id),
                    span_id: tarpc::trace::SpanId::from(7u64),
                    sampling_decision: if sampled { tarpc::trace::SamplingDecision::Sampled } else { tarpc::trace::SamplingDecision::Unsampled },
                };
                let resolved = self.resolved.clone();
                let body = format!("k{}c{}", k, c);
                let _g = self.clock.rt.enter();
                // under an OpenTelemetry layer the call takes its trace context from the span it is made in
                let span = if self.otel {
                    use opentelemetry::trace::TraceContextExt;
                    use tracing_opentelemetry::OpenTelemetrySpanExt;
                    let span = tracing::info_span!("caller");
                    span.set_parent(opentelemetry::Context::new().with_remote_span_context(opentelemetry::trace::SpanContext::new(
                        opentelemetry::trace::TraceId::from_bytes(trace_id.to_be_bytes()),
                        opentelemetry::trace::SpanId::from_bytes(7u64.to_be_bytes()),
                        if sampled { opentelemetry::trace::TraceFlags::SAMPLED } else { opentelemetry::trace::TraceFlags::default() },
                        true,
                        opentelemetry::trace::TraceState::default(),
                    )));
                    span
                } else {
                    tracing::Span::none()
                };
                use tracing::Instrument;
                let h = tokio::spawn(async move {
                    let r = ch.call(ctx, body).instrument(span).await;
                    let (kind, b) = res_of(&r);
                    resolved.lock().unwrap().insert(c);
                    // an ok body is "r<call>.<incarnation>"
                    let (rc, rinc) = if kind == "ok" {
                        let t = b.strip_prefix('r').unwrap_or("0.0");
                        let mut it = t.split('.');
                        (it.next().and_then(|x| x.parse::<u64>().ok()).unwrap_or(0), it.next().and_then(|x| x.parse::<u64>().ok()).unwrap_or(0))
                    } else {
                        (0, 0)
                    };
                    emit("SysResolved", json!({"c": c, "res": kind, "body": b, "rc": rc, "rinc": rinc}));
                    drop(ch);
                });
                self.calls.insert(c, h);
            }
            "Complete" => {
                let c = s["c"].as_u64().unwrap();
                emit("SysComplete", json!({"c": c}));
                let w = {
                    let mut g = self.ctl.lock().unwrap();
                    g.gate.insert(c);
                    g.wakers.remove(&c)
                };
                if let Some(w) = w {
                    w.wake();
                }
            }
            "Abandon" => {
                let c = s["c"].as_u64().unwrap();
                if self.resolved.lock().unwrap().contains(&c) || self.abandoned.contains(&c) {
                    return;
                }
                if let Some(h) = self.calls.get(&c) {
                    self.abandoned.insert(c);
                    emit("SysAbandon", json!({"c": c}));
                    // abort from inside the runtime: the aborted task joins the local run queue in order, so a batch of
                    // abandoned calls is dropped before the dispatch (woken by the first of them) runs again
                    self.clock.rt.block_on(async { h.abort() });
                }
            }
            "ArmServer" => {
                // the server's transport of connection k reports an error at its next operation of kind `op` (and only that one)
                let k = s["k"].as_u64().unwrap();
                let op = s["op"].as_str().unwrap_or("next").to_string();
                if let Some(a) = self.sarms.get(&k) {
                    emit("SysArmServer", json!({"k": k, "op": op}));
                    *a.lock().unwrap() = Some(op);
                }
            }
            "DropClient" => {
                let k = s["k"].as_u64().unwrap();
                if self.clients.remove(&k).is_some() {
                    emit("SysDropClient", json!({"k": k}));
                }
            }
            "CloseListener" => {
                if self.listener.take().is_some() {
                    emit("SysCloseListener", json!({}));
                }
            }
            "Tick" => {
                let d = s["d"].as_u64().unwrap_or(1);
                exec::log_set_now(self.clock.now_ms() + d);
                emit("SysTick", json!({"d": d}));
                self.clock.rt.block_on(tokio::time::advance(Duration::from_millis(d)));
                exec::log_set_now(self.clock.now_ms());
            }
            "Run" => self.run(),
            _ => {}
        }
    }
}

fn run_one(scn: u64, cfg: &Value, steps: &[Value], rng: Option<&mut StdRng>, nrandom: usize) -> (Vec<Value>, Option<String>) {
    exec::log_begin_scenario(scn);
    emit(
        "Reset",
        json!({"sub": cfg["sub"].as_str().unwrap_or("none"), "transport": cfg["transport"].as_str().unwrap_or("mem"),
               "n": cfg["n"].as_u64().unwrap_or(0), "limit": cfg["limit"].as_i64().unwrap_or(-1),
               "maxInFlight": cfg["maxInFlight"].as_u64().unwrap_or(1000), "buf": cfg["buf"].as_u64().unwrap_or(100)}),
    );
    let mut done: Vec<Value> = vec![];
    let cfgc = cfg.clone();
    let r = exec::catch(move || {
        let mut w = World::new(&cfgc);
        let mut done: Vec<Value> = vec![];
        w.run();
        if let Some(rng) = rng {
            let nconn = 1 + rng.gen_range(0..3u64);
            let ncalls = 1 + rng.gen_range(0..6u64);
            let mut next_call = 1u64;
            let batch = rng.gen_bool(0.4);
            for _ in 0..nrandom {
                // candidate steps in the current state
                let mut cand: Vec<Value> = vec![];
                for k in 1..=nconn {
                    if !w.connected.contains(&k) {
                        let key = 1 + rng.gen_range(0..2u64);
                        cand.push(json!({"a": "Connect", "k": k, "key": key}));
                    }
                }
                let live: Vec<u64> = w.clients.keys().cloned().collect();
                if next_call <= ncalls && !live.is_empty() {
                    let k = live[rng.gen_range(0..live.len())];
                    let dl = [3u64, 8, 10_000, 10_000][rng.gen_range(0..4)];
                    cand.push(json!({"a": "Call", "c": next_call, "k": k, "dl": dl}));
                    cand.push(json!({"a": "Call", "c": next_call, "k": k, "dl": dl}));
                }
                let started: Vec<u64> = w.call_conn.keys().cloned().collect();
                for c in &started {
                    if !w.ctl.lock().unwrap().gate.contains(c) {
                        cand.push(json!({"a": "Complete", "c": c}));
                    }
                    if !w.abandoned.contains(c) && !w.resolved.lock().unwrap().contains(c) {
                        cand.push(json!({"a": "Abandon", "c": c}));
                    }
                }
                if !live.is_empty() && rng.gen_bool(0.3) {
                    let dk = live[rng.gen_range(0..live.len())];
                    cand.push(json!({"a": "DropClient", "k": dk}));
                }
                let td = [1u64, 2, 5][rng.gen_range(0..3)];
                cand.push(json!({"a": "Tick", "d": td}));
                cand.push(json!({"a": "Run"}));
                let s = cand[rng.gen_range(0..cand.len())].clone();
                if s["a"] == "Call" {
                    next_call += 1;
                }
                watch_step(&s);
                w.step(&s);
                let is_run = s["a"] == "Run";
                done.push(s);
                if !is_run && !(batch && rng.gen_bool(0.5)) {
                    watch_step(&json!({"a": "Run"}));
                    w.step(&json!({"a": "Run"}));
                    done.push(json!({"a": "Run"}));
                }
            }
        } else {
            for s in steps {
                w.step(s);
                done.push(s.clone());
            }
        }
        // epilogue: let everything finish (open every gate, drop every client, run; then pass every deadline)
        w.run();
        emit("SysEpilogue", json!({}));
        let cs: Vec<u64> = w.call_conn.keys().cloned().collect();
        for c in cs {
            w.step(&json!({"a": "Complete", "c": c}));
        }
        w.run();
        let ks: Vec<u64> = w.clients.keys().cloned().collect();
        for k in ks {
            w.step(&json!({"a": "DropClient", "k": k}));
        }
        w.run();
        emit("SysTeardown", json!({}));
        drop(w);
        done
    });
    match r {
        Ok(d) => {
            done = d;
            (done, None)
        }
        Err(msg) => {
            emit("Panic", json!({"where": "sys", "msg": msg}));
            (done, Some(msg))
        }
    }
}

pub fn run(a: &Args) -> Value {
    let sub = a.opt_str("sub", "none");
    crate::wire::install_subscriber(&sub);
    start_watchdog(a);
    let mut index = vec![];
    let mut scn = 0u64;
    let mut panics = 0;
    if let Some(p) = &a.sched {
        for Sched { id, mut cfg, steps, .. } in crate::load_scheds(p) {
            scn += 1;
            cfg["sub"] = json!(sub);
            watch_begin(&id, &cfg, &steps);
            let (done, pn) = run_one(scn, &cfg, &steps, None, 0);
            watch_end();
            if pn.is_some() {
                panics += 1;
            }
            index.push(json!({"scn": scn, "id": id, "cfg": cfg, "steps": done}));
        }
    }
    let mut rng = StdRng::seed_from_u64(a.seed.wrapping_mul(7919).wrapping_add(17));
    for i in 0..a.random {
        scn += 1;
        let n = [0u64, 1, 1, 2][rng.gen_range(0..4)];
        let limit = [-1i64, 0, 1, 1, 2][rng.gen_range(0..5)];
        let mif = [1u64, 2, 1000][rng.gen_range(0..3)];
        let buf = [1u64, 100][rng.gen_range(0..2)];
        let rb = [1u64, 100][rng.gen_range(0..2)];
        let transport = ["mem", "mem", "json", "bincode"][rng.gen_range(0..4)];
        let cfg = json!({"n": n, "limit": limit, "maxInFlight": mif, "buf": buf, "respBuf": rb, "random": true, "transport": transport, "sub": sub});
        let len = 4 + rng.gen_range(0..14usize);
        watch_begin(&format!("rand:{}:{}", a.seed, i), &cfg, &[]);
        let (done, pn) = run_one(scn, &cfg, &[], Some(&mut rng), len);
        watch_end();
        if pn.is_some() {
            panics += 1;
        }
        index.push(json!({"scn": scn, "id": format!("rand:{}:{}", a.seed, i), "cfg": cfg, "steps": done}));
    }
    json!({"family": "sys", "executed": scn, "panics": panics, "index": index, "mismatches": []})
}
