//! Family `client`: tarpc::client::{Channel, RequestDispatch} over an instrumented transport with
//! an adversarial scripted peer (specification spec/Client.tla, observer spec/ObsClient.tla).
//!
//! Steps
//!   {"a":"Call","c":C,"dl":MS,"h":H,"tr":T,"sampled":B}  create call C on handle H (deadline at virtual MS)
//!   {"a":"Poll","t":"d"|"cN"}       poll the dispatch / call N (only if its waker flag is set)
//!   {"a":"Peer","id":I}             peer pushes Ok response for id I (body "r<I>.<n>", n unique)
//!   {"a":"PeerErr","id":I}          peer pushes a server-error response for id I
//!   {"a":"PeerEof"}                 peer ends the client's read side
//!   {"a":"Arm","op":OP,"k":K}       the K-th next transport call of OP fails
//!   {"a":"SinkOpen"|"SinkBlock"|"SinkCredit"}
//!   {"a":"Tick","d":MS}
//!   {"a":"Drop","c":C}              abandon call C (drop its future)
//!   {"a":"DropEnter","c":C} .. {"a":"DropMid","c":C} .. {"a":"DropExit","c":C}
//!                                   abandon with the steps in between run inside the guard's drop
//!                                   (before close / between close and cancel) via hook H1
//!   {"a":"HandleClone","h":H} {"a":"HandleDrop","h":H}
//!   {"a":"Settle"} {"a":"Quiesce"}

use crate::{
    exec::{self, emit, Clock, Flag},
    vtransport::{self as vt, Shared, VTransport},
    Args, Sched,
};
use futures::{task::Context, Future};
use rand::{rngs::StdRng, Rng, SeedableRng};
use serde_json::{json, Value};
use std::{collections::BTreeMap, pin::Pin, sync::Arc, task::Poll};
use tarpc::{
    client::{self, Channel, RequestDispatch, RpcError},
    context, trace, ChannelError, ClientMessage, Response, ServerError,
};

type Req = String;
type Resp = String;
type Tr = VTransport<ClientMessage<Req>, Response<Resp>>;
type CallFut = Pin<Box<dyn Future<Output = Result<Resp, RpcError>>>>;

pub fn describe_client_msg(m: &ClientMessage<Req>) -> Value {
    match m {
        ClientMessage::Request(r) => {
            let c: i64 = r.message.trim_start_matches('c').parse().unwrap_or(-1);
            json!({"kind": "req", "id": r.id, "c": c,
                   "tr": format!("{:x}", u128::from(r.context.trace_context.trace_id)),
                   "span": format!("{:x}", u64::from(r.context.trace_context.span_id)),
                   "sampled": r.context.trace_context.sampling_decision == trace::SamplingDecision::Sampled})
        }
        ClientMessage::Cancel {
            trace_context,
            request_id,
        } => json!({"kind": "cancel", "id": request_id, "c": -1,
                   "tr": format!("{:x}", u128::from(trace_context.trace_id)),
                   "span": format!("{:x}", u64::from(trace_context.span_id)),
                   "sampled": trace_context.sampling_decision == trace::SamplingDecision::Sampled}),
        _ => json!({"kind": "other", "id": -1, "c": -1, "tr": "0", "span": "0", "sampled": false}),
    }
}

pub fn describe_response(r: &Response<Resp>) -> Value {
    // aliased ids (id0 + 2^32, see the `Peer` step) are written 7000 + id0 in the trace
    let id = if r.request_id >= (1u64 << 32) { 7000 + (r.request_id & 0xffff_ffff) } else { r.request_id };
    match &r.message {
        Ok(b) => json!({"id": id, "ok": true, "body": b}),
        Err(e) => json!({"id": id, "ok": false, "body": e.detail}),
    }
}

struct CallSlot {
    fut: Option<CallFut>,
    flag: Arc<Flag>,
    dl: i64,
    resolved: bool,
    abandoned: bool,
}

pub struct St {
    clock: Clock,
    tr: Shared<ClientMessage<Req>, Response<Resp>>,
    dispatch: Option<Pin<Box<RequestDispatch<Req, Resp, Tr>>>>,
    dflag: Arc<Flag>,
    dispatch_done: bool,
    handles: BTreeMap<u64, Channel<Req, Resp>>,
    calls: BTreeMap<u64, CallSlot>,
    next_n: u64,
    max_in_flight: usize,
    // schedule interpretation
    steps: Vec<Value>,
    pos: usize,
    done_steps: Vec<Value>,
    skipped: u64,
    in_window: bool,
    win_stage: u8,
    gen: Option<Gen>,
    eof_pushed: bool,
    expect: Option<Vec<Value>>,
    yield_seen: bool,
    mismatch: Option<Value>,
    last_res: Value,
}

fn cfg_u64(cfg: &Value, k: &str, d: u64) -> u64 {
    cfg.get(k).and_then(|v| v.as_u64()).unwrap_or(d)
}
fn cfg_str<'a>(cfg: &'a Value, k: &str, d: &'a str) -> &'a str {
    cfg.get(k).and_then(|v| v.as_str()).unwrap_or(d)
}

impl St {
    fn new(cfg: &Value) -> St {
        let clock = Clock::new();
        let mode = vt::mode_of(cfg_str(cfg, "mode", "always"));
        let cap = cfg_u64(cfg, "cap", 1) as usize;
        let (transport, tr) = vt::new("c", mode, cap, describe_client_msg, describe_response);
        if !cfg.get("open").and_then(|v| v.as_bool()).unwrap_or(true) {
            tr.borrow_mut().open = false;
        }
        tr.borrow_mut().credits = cfg_u64(cfg, "credits", 0) as usize;
        if let Some(n) = cfg.get("spin").and_then(|v| v.as_u64()) {
            // burst scenarios legitimately perform thousands of transport operations in one poll
            tr.borrow_mut().spin_limit = n as u32;
        }
        let mut config = client::Config::default();
        config.max_in_flight_requests = cfg_u64(cfg, "maxInFlight", 2) as usize;
        config.pending_request_buffer = cfg_u64(cfg, "buf", 1) as usize;
        let max_in_flight = config.max_in_flight_requests;
        let _g = clock.rt.enter();
        let nc = client::new(config, transport);
        drop(_g);
        let mut handles = BTreeMap::new();
        handles.insert(0, nc.client);
        St {
            clock,
            tr,
            dispatch: Some(Box::pin(nc.dispatch)),
            dflag: Flag::new("d", true),
            dispatch_done: false,
            handles,
            calls: BTreeMap::new(),
            next_n: 0,
            max_in_flight,
            steps: vec![],
            pos: 0,
            done_steps: vec![],
            skipped: 0,
            in_window: false,
            win_stage: 0,
            gen: None,
            eof_pushed: false,
            expect: None,
            yield_seen: false,
            mismatch: None,
            last_res: json!({}),
        }
    }

    fn sync_time(&self) {
        exec::log_set_now(self.clock.now_ms());
    }

    fn emit_counts(&self) {
        if let Some(d) = &self.dispatch {
            let (infl, timers) = d.verif_counts();
            emit("Counts", json!({"infl": infl, "timers": timers}));
        }
    }

    fn poll_dispatch(&mut self) -> bool {
        if self.dispatch.is_none() || !self.dflag.is_set() {
            return false;
        }
        let mut d = self.dispatch.take().unwrap();
        self.dflag.clear();
        self.tr.borrow_mut().begin_poll();
        let waker = self.dflag.waker();
        let mut cx = Context::from_waker(&waker);
        let prev = exec::log_set_task("d");
        emit("PollStart", json!({"who": "d"}));
        let r = {
            let _g = self.clock.rt.enter();
            exec::catch(|| d.as_mut().poll(&mut cx))
        };
        match r {
            Ok(Poll::Pending) => {
                let (infl, timers) = d.verif_counts();
                emit("PollEnd", json!({"who": "d", "res": "pending", "infl": infl, "timers": timers,
                                       "woken": self.dflag.is_set()}));
                self.last_res = json!({"res": "pending", "infl": infl});
                self.dispatch = Some(d);
            }
            Ok(Poll::Ready(res)) => {
                let kind = match &res {
                    Ok(()) => "ok",
                    Err(ChannelError::Read(_)) => "read",
                    Err(ChannelError::Ready(_)) => "ready",
                    Err(ChannelError::Write(_)) => "write",
                    Err(ChannelError::Flush(_)) => "flush",
                    Err(ChannelError::Close(_)) => "close",
                };
                let (infl, timers) = d.verif_counts();
                emit("PollEnd", json!({"who": "d", "res": "ready", "infl": infl, "timers": timers, "woken": false}));
                emit("DispatchDone", json!({"res": kind}));
                self.last_res = json!({"res": "ready", "infl": infl});
                self.dispatch_done = true;
                // an executor drops a completed future
                let _g = self.clock.rt.enter();
                drop(d);
                drop(_g);
                emit("DispatchDropped", json!({}));
            }
            Err(msg) => {
                if !msg.starts_with("spin guard") {
                    emit("Panic", json!({"who": "d", "msg": msg}));
                }
                self.last_res = json!({"res": "spin"});
                self.dispatch_done = true;
                let _g = self.clock.rt.enter();
                let _ = exec::catch(move || drop(d));
                drop(_g);
                emit("DispatchDropped", json!({}));
            }
        }
        exec::log_set_task(&prev);
        true
    }

    fn poll_call(&mut self, c: u64) -> bool {
        let (mut fut, flag) = match self.calls.get_mut(&c) {
            Some(slot) if slot.fut.is_some() && slot.flag.is_set() => {
                (slot.fut.take().unwrap(), slot.flag.clone())
            }
            _ => return false,
        };
        flag.clear();
        let waker = flag.waker();
        let mut cx = Context::from_waker(&waker);
        let name = format!("c{}", c);
        let prev = exec::log_set_task(&name);
        emit("PollStart", json!({"who": name, "c": c}));
        let r = {
            let _g = self.clock.rt.enter();
            exec::catch(|| fut.as_mut().poll(&mut cx))
        };
        match r {
            Ok(Poll::Pending) => {
                emit("PollEnd", json!({"who": name, "res": "pending", "infl": 0, "timers": 0, "woken": flag.is_set()}));
                self.last_res = json!({"res": "pending"});
                self.calls.get_mut(&c).unwrap().fut = Some(fut);
            }
            Ok(Poll::Ready(res)) => {
                let (kind, body) = match &res {
                    Ok(b) => ("ok".to_string(), b.clone()),
                    Err(RpcError::Shutdown) => ("shutdown".into(), String::new()),
                    Err(RpcError::Send(_)) => ("send".into(), String::new()),
                    Err(RpcError::Channel(e)) => (
                        "channel".into(),
                        match e {
                            ChannelError::Read(_) => "read",
                            ChannelError::Ready(_) => "ready",
                            ChannelError::Write(_) => "write",
                            ChannelError::Flush(_) => "flush",
                            ChannelError::Close(_) => "close",
                        }
                        .to_string(),
                    ),
                    Err(RpcError::DeadlineExceeded) => ("deadline".into(), String::new()),
                    Err(RpcError::Server(e)) => ("server".into(), e.detail.clone()),
                };
                emit("PollEnd", json!({"who": name, "res": "ready", "infl": 0, "timers": 0, "woken": false}));
                emit("CallResolved", json!({"c": c, "kind": kind, "body": body}));
                self.last_res = json!({"res": kind});
                self.calls.get_mut(&c).unwrap().resolved = true;
                let _g = self.clock.rt.enter();
                drop(fut);
            }
            Err(msg) => {
                emit("Panic", json!({"who": name, "msg": msg}));
                self.calls.get_mut(&c).unwrap().abandoned = true;
                let _g = self.clock.rt.enter();
                let _ = exec::catch(move || drop(fut));
            }
        }
        exec::log_set_task(&prev);
        true
    }

    fn settle(&mut self) {
        let mut guard = 0;
        loop {
            guard += 1;
            if guard > 2000 {
                emit("Spin", json!({"ep": "settle", "op": "settle"}));
                break;
            }
            let mut any = false;
            if self.poll_dispatch() {
                any = true;
            }
            let ids: Vec<u64> = self.calls.keys().cloned().collect();
            for c in ids {
                if self.poll_call(c) {
                    any = true;
                }
            }
            if !any {
                break;
            }
        }
    }

    fn settled_event(&self, name: &str) {
        let t = self.tr.borrow();
        let (infl, timers) = self
            .dispatch
            .as_ref()
            .map(|d| d.verif_counts())
            .unwrap_or((0, 0));
        emit(
            name,
            json!({"inq": t.inq.len(), "writable": t.writable_now(), "unflushed": t.buffered.len(),
                   "infl": infl, "timers": timers, "dispatch_alive": self.dispatch.is_some(),
                   "handles": self.handles.len()}),
        );
    }

    fn quiesce(&mut self) {
        let mut first = true;
        for _ in 0..200 {
            self.settle();
            let mut changed = false;
            {
                let mut t = self.tr.borrow_mut();
                if !t.open {
                    t.set_open(true);
                    emit("Env", json!({"what": "SinkOpen"}));
                    changed = true;
                }
                if t.mode == vt::Mode::Independent && t.credits == 0 && !t.closed && self.dispatch.is_some() {
                    t.add_credit(1);
                    emit("Env", json!({"what": "SinkCredit"}));
                    changed = true;
                }
            }
            self.settle();
            let any_woken = self.dflag.is_set() && self.dispatch.is_some()
                || self.calls.values().any(|s| s.fut.is_some() && s.flag.is_set());
            if any_woken || changed {
                continue;
            }
            if first {
                // everything owed by the transport is granted and all woken tasks were polled,
                // the clock has not moved: a settle point
                first = false;
                self.settled_event("Settled");
            }
            // run the clock to the next deadline of an unresolved call, if any timer is armed
            let now = self.clock.now_ms() as i64;
            let timers = self.dispatch.as_ref().map(|d| d.verif_counts().1).unwrap_or(0);
            let next = self
                .calls
                .values()
                .filter(|s| s.fut.is_some() && s.dl > now)
                .map(|s| s.dl)
                .min();
            match (timers, next) {
                (t, Some(dl)) if t > 0 => {
                    let d = (dl - now) as u64;
                    self.clock.advance(d);
                    emit("Tick", json!({"d": d}));
                }
                _ => break,
            }
        }
        self.settled_event("Quiescent");
    }

    fn drop_call(&mut self, c: u64) {
        let fut = match self.calls.get_mut(&c) {
            Some(slot) if slot.fut.is_some() => {
                slot.abandoned = true;
                slot.fut.take().unwrap()
            }
            _ => {
                self.skipped += 1;
                return;
            }
        };
        emit("DropEnter", json!({"c": c}));
        let _g = self.clock.rt.enter();
        let r = exec::catch(move || drop(fut));
        drop(_g);
        if let Err(msg) = r {
            emit("Panic", json!({"who": format!("c{}", c), "msg": msg}));
        }
        emit("CallAbandon", json!({"c": c}));
    }

    /// Executes steps from `pos` until (and including) a step whose action is `until`
    /// (or to the end when `until` is None).
    fn next_step(&mut self) -> Option<Value> {
        if self.pos < self.steps.len() {
            let s = self.steps[self.pos].clone();
            self.pos += 1;
            return Some(s);
        }
        let mut g = self.gen.take()?;
        let r = g.next(self);
        self.gen = Some(g);
        r
    }

    fn run_steps(&mut self, until: Option<&str>) {
        while let Some(step) = self.next_step() {
            let act = step.get("a").and_then(|v| v.as_str()).unwrap_or("").to_string();
            if Some(act.as_str()) == until {
                self.win_stage = if act == "DropMid" { 2 } else { 0 };
                self.done_steps.push(step);
                return;
            }
            if act == "DropMid" && self.win_stage == 1 {
                // the guard was never created (call not polled yet): the marker only advances the window
                self.win_stage = 2;
                self.done_steps.push(step);
                continue;
            }
            self.exec_step(&act, &step);
        }
    }

    fn exec_step(&mut self, act: &str, step: &Value) {
        self.sync_time();
        let mut ok = true;
        match act {
            "Call" => {
                let c = step["c"].as_u64().unwrap();
                let h = step.get("h").and_then(|v| v.as_u64()).unwrap_or(0);
                let dl = step.get("dl").and_then(|v| v.as_i64()).unwrap_or(10_000);
                let tr = step.get("tr").and_then(|v| v.as_u64()).unwrap_or(c + 100);
                let sampled = step.get("sampled").and_then(|v| v.as_bool()).unwrap_or(false);
                if self.calls.contains_key(&c) || !self.handles.contains_key(&h) {
                    ok = false;
                } else {
                    let ch = self.handles[&h].clone();
                    let mut ctx = context::current();
                    ctx.deadline = self.clock.std_at(dl);
                    ctx.trace_context = trace::Context {
                        trace_id: trace::TraceId::from(tr as u128),
                        span_id: trace::SpanId::from(7u64),
                        sampling_decision: if sampled {
                            trace::SamplingDecision::Sampled
                        } else {
                            trace::SamplingDecision::Unsampled
                        },
                    };
                    let body = format!("c{}", c);
                    let fut: CallFut = Box::pin(async move { ch.call(ctx, body).await });
                    emit("CallStart", json!({"c": c, "dl": dl, "tr": format!("{:x}", tr), "span": "7", "sampled": sampled, "h": h,
                                             "after_done": self.dispatch_done}));
                    self.calls.insert(
                        c,
                        CallSlot {
                            fut: Some(fut),
                            flag: Flag::new(&format!("c{}", c), true),
                            dl,
                            resolved: false,
                            abandoned: false,
                        },
                    );
                }
            }
            "Poll" => {
                let t = step["t"].as_str().unwrap_or("d").to_string();
                ok = if t == "d" {
                    self.poll_dispatch()
                } else {
                    let c: u64 = t[1..].parse().unwrap_or(0);
                    self.poll_call(c)
                };
            }
            "Peer" | "PeerErr" => {
                let id0 = step["id"].as_u64().unwrap();
                // `alias`: a response whose id agrees with id0 in its low 32 bits but is another id (id0 + 2^32): nobody asked
                // for it.  The trace calls it 7000 + id0 (the observer's integers are 32 bits wide).
                let alias = step.get("alias").and_then(|v| v.as_bool()).unwrap_or(false);
                let id = if alias { 7000 + id0 } else { id0 };
                self.next_n += 1;
                let n = self.next_n;
                let msg = if act == "Peer" {
                    Ok(format!("r{}.{}", id, n))
                } else {
                    // the kind of a server error is the application's business: whatever it is, the call fails with that error
                    let kinds = [std::io::ErrorKind::Other, std::io::ErrorKind::TimedOut, std::io::ErrorKind::WouldBlock,
                                 std::io::ErrorKind::ConnectionReset, std::io::ErrorKind::NotFound];
                    Err(ServerError::new(kinds[(n as usize) % kinds.len()], format!("e{}.{}", id, n)))
                };
                let r = Response {
                    request_id: id,
                    message: msg,
                };
                emit("PeerPush", json!({"item": describe_response(&r)}));
                let r = if alias { Response { request_id: id0 + (1u64 << 32), message: r.message } } else { r };
                self.tr.borrow_mut().push_in(r);
            }
            "PeerEof" => {
                emit("PeerEof", json!({}));
                self.eof_pushed = true;
                self.tr.borrow_mut().push_eof();
            }
            "Arm" => {
                let op = step["op"].as_str().unwrap().to_string();
                let k = step.get("k").and_then(|v| v.as_u64()).unwrap_or(1) as u32;
                emit("Env", json!({"what": "Arm", "op": op, "k": k}));
                self.tr.borrow_mut().arm(&op, k);
            }
            "SinkOpen" => {
                emit("Env", json!({"what": "SinkOpen"}));
                self.tr.borrow_mut().set_open(true);
            }
            "SinkBlock" => {
                emit("Env", json!({"what": "SinkBlock"}));
                self.tr.borrow_mut().set_open(false);
            }
            "SinkCredit" => {
                emit("Env", json!({"what": "SinkCredit"}));
                self.tr.borrow_mut().add_credit(1);
            }
            "Tick" => {
                let d = step["d"].as_u64().unwrap_or(1);
                self.clock.advance(d);
                emit("Tick", json!({"d": d}));
            }
            "Drop" => {
                let c = step["c"].as_u64().unwrap();
                self.drop_call(c);
            }
            "DropEnter" => {
                let c = step["c"].as_u64().unwrap();
                if self.in_window || !self.calls.get(&c).map(|s| s.fut.is_some()).unwrap_or(false) {
                    ok = false;
                } else {
                    self.in_window = true;
                    self.win_stage = 1;
                    self.yield_seen = false;
                    let me = self as *mut St as usize;
                    tarpc::verif::set_yield_callback(Some(Box::new(move |name: &'static str, _id: u64| {
                        // SAFETY: single-threaded; `St` outlives the drop below; the call future
                        // being dropped has been taken out of its slot.
                        let st = unsafe { &mut *(me as *mut St) };
                        st.yield_seen = true;
                        match name {
                            "guard_drop_enter" => {
                                emit("DropPoint", json!({"at": "enter"}));
                                st.run_steps(Some("DropMid"));
                            }
                            "guard_drop_mid" => {
                                emit("DropPoint", json!({"at": "mid"}));
                                st.run_steps(Some("DropExit"));
                            }
                            _ => {}
                        }
                    })));
                    self.done_steps.push(step.clone());
                    self.drop_call(c);
                    tarpc::verif::set_yield_callback(None);
                    // no guard existed (the call was never polled): this was a plain drop, no window
                    if self.win_stage != 0 && self.yield_seen {
                        self.run_steps(Some("DropExit"));
                    }
                    self.win_stage = 0;
                    self.in_window = false;
                    return;
                }
            }
            "DropMid" | "DropExit" => {
                ok = false;
            }
            "HandleClone" => {
                let h = step.get("h").and_then(|v| v.as_u64()).unwrap_or(0);
                if let Some(ch) = self.handles.get(&h).cloned() {
                    let nh = self.handles.keys().max().cloned().unwrap_or(0) + 1;
                    self.handles.insert(nh, ch);
                    emit("Handles", json!({"what": "clone", "h": h, "nh": nh, "left": self.handles.len()}));
                } else {
                    ok = false;
                }
            }
            "CloneMany" => {
                // n short-lived clones of handle h (created and dropped again): a client handle may be cloned any number of
                // times over the life of a connection
                let h = step.get("h").and_then(|v| v.as_u64()).unwrap_or(0);
                let n = step.get("n").and_then(|v| v.as_u64()).unwrap_or(1);
                if let Some(ch) = self.handles.get(&h) {
                    let _g = self.clock.rt.enter();
                    for _ in 0..n {
                        drop(ch.clone());
                    }
                    emit("Handles", json!({"what": "clonemany", "h": h, "n": n, "left": self.handles.len()}));
                } else {
                    ok = false;
                }
            }
            "HandleDrop" => {
                let h = step.get("h").and_then(|v| v.as_u64()).unwrap_or(0);
                if let Some(ch) = self.handles.remove(&h) {
                    let _g = self.clock.rt.enter();
                    drop(ch);
                    emit("Handles", json!({"what": "drop", "h": h, "left": self.handles.len()}));
                } else {
                    ok = false;
                }
            }
            "Settle" => {
                self.settle();
                self.settled_event("Settled");
            }
            "Quiesce" => {
                self.quiesce();
            }
            _ => ok = false,
        }
        if ok {
            self.done_steps.push(step.clone());
        } else {
            self.skipped += 1;
        }
        self.compare(ok, act, step);
        if ok && self.win_stage == 0 && !self.in_window && act != "Settle" && act != "Quiesce"
            && self.woken_names().is_empty()
        {
            // nothing is woken: the system is settled without any extra poll
            self.settled_event("Settled");
        }
    }

    fn woken_names(&self) -> Vec<String> {
        let mut v = vec![];
        if self.dispatch.is_some() && self.dflag.is_set() {
            v.push("d".to_string());
        }
        for (c, s) in &self.calls {
            if s.fut.is_some() && s.flag.is_set() {
                v.push(format!("c{}", c));
            }
        }
        v
    }

    /// Compares the real outcome of the step just executed with the model's prediction.
    fn compare(&mut self, ok: bool, act: &str, step: &Value) {
        let idx = self.pos.wrapping_sub(1);
        let exp = match self.expect.as_ref().and_then(|e| e.get(idx)) {
            Some(e) => e.clone(),
            None => return,
        };
        if self.mismatch.is_some() {
            return;
        }
        let woken = self.woken_names();
        let mut bad = !ok;
        if act == "Poll" {
            for k in ["res", "infl"] {
                if let Some(x) = exp.get(k) {
                    if self.last_res.get(k) != Some(x) {
                        bad = true;
                    }
                }
            }
        }
        if let Some(ws) = exp.get("woken").and_then(|w| w.as_array()) {
            for w in ws {
                if let Some(n) = w.as_str() {
                    if !woken.iter().any(|x| x == n) {
                        bad = true;
                    }
                }
            }
        }
        if bad {
            self.mismatch = Some(json!({"step": idx, "action": step, "applicable": ok, "expected": exp,
                                        "got": self.last_res, "woken": woken}));
        }
    }
}

pub struct OneResult {
    pub steps: Vec<Value>,
    pub skipped: u64,
    pub mismatch: Option<Value>,
}

pub fn run_one(scn: u64, s: &Sched) -> OneResult {
    exec::log_begin_scenario(scn);
    let mut st = St::new(&s.cfg);
    emit(
        "Reset",
        json!({"id": s.id, "maxInFlight": st.max_in_flight,
               "buf": cfg_u64(&s.cfg, "buf", 1),
               "mode": cfg_str(&s.cfg, "mode", "always"),
               "cap": cfg_u64(&s.cfg, "cap", 1),
               "open": s.cfg.get("open").and_then(|v| v.as_bool()).unwrap_or(true),
               "credits": cfg_u64(&s.cfg, "credits", 0)}),
    );
    st.steps = s.steps.clone();
    st.expect = s.expect.clone();
    if let Some(r) = s.cfg.get("random") {
        st.gen = Some(Gen {
            rng: StdRng::seed_from_u64(cfg_u64(r, "seed", 0)),
            left: cfg_u64(r, "len", 20),
            ncalls: cfg_u64(r, "calls", 3),
            next_c: 1,
            faults_left: cfg_u64(r, "faults", 0),
            windows: r.get("windows").and_then(|v| v.as_bool()).unwrap_or(true),
            mode: cfg_str(&s.cfg, "mode", "always").to_string(),
            far: r.get("far").and_then(|v| v.as_bool()).unwrap_or(false),
            hours: r.get("hours").and_then(|v| v.as_bool()).unwrap_or(false),
            hold: cfg_u64(r, "hold", 0),
        });
    }
    st.run_steps(None);
    if s.cfg.get("quiesce").and_then(|v| v.as_bool()).unwrap_or(true) {
        st.quiesce();
    }
    emit("EndScenario", json!({}));
    // tear down inside the runtime context (DelayQueue timers deregister on drop)
    let res = OneResult {
        steps: std::mem::take(&mut st.done_steps),
        skipped: st.skipped,
        mismatch: st.mismatch.take(),
    };
    let _g = st.clock.rt.enter();
    let _ = exec::catch(|| {
        st.calls.clear();
        st.handles.clear();
        st.dispatch.take();
    });
    drop(_g);
    res
}

/// Seeded random schedule generator.  It runs *online*: each step is drawn from the steps that
/// are applicable in the current state of the real objects (a task is offered for polling only
/// if its waker flag is set), with weights biased toward the interesting races.
pub struct Gen {
    rng: StdRng,
    left: u64,
    ncalls: u64,
    next_c: u64,
    faults_left: u64,
    windows: bool,
    mode: String,
    far: bool,
    /// deadlines of 12 hours / 2 days and clock steps of 9 and 30 hours
    hours: bool,
    /// the dispatch is not polled during the first `hold` steps: its very first poll then finds work (calls, faults) waiting
    hold: u64,
}

impl Gen {
    fn next(&mut self, st: &mut St) -> Option<Value> {
        let rng = &mut self.rng;
        if self.left == 0 {
            // close an open drop window, then stop
            return match st.win_stage {
                1 => Some(json!({"a":"DropMid","c":0})),
                2 => Some(json!({"a":"DropExit","c":0})),
                _ => None,
            };
        }
        self.left -= 1;
        let in_win = st.win_stage != 0;
        let mut ch: Vec<(u32, Value)> = vec![];
        let alive = st.dispatch.is_some();
        let handles: Vec<u64> = st.handles.keys().cloned().collect();
        if self.next_c <= self.ncalls && !handles.is_empty() && !in_win {
            let dls = [0i64, 1, 2, 3, 5, 8, 10_000, 10_000, 10_000];
            let now = st.clock.now_ms() as i64;
            let dl = if self.far && rng.gen_range(0..4) == 0 {
                70_000_000_000 // about 2.2 years: beyond the timer queue's range
            } else if self.hours && rng.gen_range(0..3) == 0 {
                now + [43_200_000i64, 172_800_000][rng.gen_range(0..2)]
            } else {
                dls[rng.gen_range(0..dls.len())]
            };
            let dl = if dl < 10_000 && rng.gen_bool(0.7) { now + dl } else { dl };
            let h = handles[rng.gen_range(0..handles.len())];
            ch.push((14, json!({"a":"Call","c":self.next_c,"dl":dl,"h":h,"tr":100 + self.next_c,
                                "sampled": rng.gen_bool(0.5)})));
        }
        if self.hold > 0 {
            self.hold -= 1;
        } else if alive && st.dflag.is_set() {
            ch.push((30, json!({"a":"Poll","t":"d"})));
        }
        let live: Vec<u64> = st.calls.iter().filter(|(_, s)| s.fut.is_some()).map(|(c, _)| *c).collect();
        for c in &live {
            if st.calls[c].flag.is_set() {
                ch.push((12, json!({"a":"Poll","t":format!("c{}", c)})));
            }
        }
        if alive && self.next_c > 1 {
            let id = rng.gen_range(0..self.next_c + 1);
            ch.push((12, json!({"a":"Peer","id":id})));
            ch.push((2, json!({"a":"PeerErr","id":id})));
            ch.push((2, json!({"a":"Peer","id":id,"alias":true})));
        }
        if !in_win {
            for c in &live {
                if self.windows && rng.gen_bool(0.5) {
                    ch.push((4, json!({"a":"DropEnter","c":c})));
                } else {
                    ch.push((4, json!({"a":"Drop","c":c})));
                }
            }
            ch.push((5, json!({"a":"Settle"})));
        }
        {
            let d = [1u64, 1, 2, 5][rng.gen_range(0..4)];
            ch.push((8, json!({"a":"Tick","d":d})));
            if self.hours {
                let big = [32_400_000u64, 108_000_000][rng.gen_range(0..2)];
                ch.push((2, json!({"a":"Tick","d":big})));
            }
        }
        match self.mode.as_str() {
            "coupled" => {
                ch.push((5, json!({"a":"SinkOpen"})));
                ch.push((3, json!({"a":"SinkBlock"})));
            }
            "independent" => ch.push((8, json!({"a":"SinkCredit"}))),
            _ => {}
        }
        if !st.eof_pushed && !in_win {
            ch.push((1, json!({"a":"PeerEof"})));
        }
        if self.faults_left > 0 && alive {
            let ops = ["next", "ready", "send", "flush", "close"];
            ch.push((3, json!({"a":"Arm","op":ops[rng.gen_range(0..ops.len())],"k":rng.gen_range(1..=3u64)})));
        }
        if !handles.is_empty() && !in_win {
            let h = handles[rng.gen_range(0..handles.len())];
            ch.push((1, json!({"a":"HandleClone","h":h})));
            ch.push((2, json!({"a":"HandleDrop","h":h})));
        }
        match st.win_stage {
            1 => ch.push((12, json!({"a":"DropMid","c":0}))),
            2 => ch.push((12, json!({"a":"DropExit","c":0}))),
            _ => {}
        }
        let total: u32 = ch.iter().map(|(w, _)| *w).sum();
        if total == 0 {
            return None;
        }
        let mut x = rng.gen_range(0..total);
        for (w, v) in ch {
            if x < w {
                let a = v["a"].as_str().unwrap_or("");
                if a == "Call" {
                    self.next_c += 1;
                }
                if a == "Arm" {
                    self.faults_left -= 1;
                }
                return Some(v);
            }
            x -= w;
        }
        None
    }
}

pub fn random_sched(i: u64, rng: &mut StdRng, a: &Args) -> Sched {
    let modes = ["always", "always", "coupled", "independent"];
    let mode = a.opts.get("mode").cloned().unwrap_or_else(|| modes[rng.gen_range(0..modes.len())].to_string());
    let faults = if a.opt_u64("faults", 1) == 1 && rng.gen_range(0..3) == 0 { rng.gen_range(1..=2u64) } else { 0 };
    let cfg = json!({"maxInFlight": rng.gen_range(1..=3u64), "buf": rng.gen_range(1..=2u64), "mode": mode,
                     "cap": rng.gen_range(1..=2u64), "open": rng.gen_range(0..4) != 0,
                     "credits": rng.gen_range(0..=2u64),
                     "random": {"seed": rng.gen::<u32>(), "len": rng.gen_range(8..60u64),
                                "calls": rng.gen_range(1..=a.opt_u64("calls", 5)),
                                "faults": faults, "windows": a.opt_u64("windows", 1) == 1,
                                "far": a.opt_u64("far", 0) == 1, "hours": a.opt_u64("hours", 0) == 1,
                                "hold": if rng.gen_range(0..4) == 0 { rng.gen_range(3..9u64) } else { 0 }}});
    Sched {
        id: format!("r{}", i),
        cfg,
        steps: vec![],
        expect: None,
    }
}

pub fn run(a: &Args) -> Value {
    // `sub`: the tracing subscriber of the process (none / fmt at TRACE level / otel): what the dispatch logs must not matter
    crate::wire::install_subscriber(&a.opt_str("sub", "none"));
    let mut scheds: Vec<Sched> = a.sched.as_deref().map(crate::load_scheds).unwrap_or_default();
    let mut rng = StdRng::seed_from_u64(a.seed ^ 0xC11E47);
    for i in 0..a.random {
        scheds.push(random_sched(i, &mut rng, a));
    }
    let mut index = vec![];
    let mut steps_total = 0u64;
    let mut skipped = 0u64;
    let mut mismatches = vec![];
    for (si, s) in scheds.iter().enumerate() {
        let scn = si as u64 + 1;
        let r = run_one(scn, s);
        steps_total += r.steps.len() as u64;
        skipped += r.skipped;
        if let Some(m) = r.mismatch {
            if mismatches.len() < 50 {
                mismatches.push(json!({"id": s.id, "scn": scn, "at": m}));
            }
        }
        index.push(json!({"scn": scn, "id": s.id, "cfg": s.cfg, "steps": r.steps}));
    }
    json!({
        "family": "client",
        "executed": scheds.len(),
        "steps": steps_total,
        "skipped_steps": skipped,
        "mismatches": mismatches,
        "index": index,
    })
}
