//! Family `hooks`: tarpc::server::request_hook wrappers (property C19; spec/Hooks.tla).
//!
//! A schedule's cfg carries an expression  {"k":"base"} | {"k":"before"|"after"|"both","h":H,"s":E}
//! | {"k":"list","hs":[H..],"s":E}  with H = {"id","fail","set","rw"}.  The harness builds the
//! corresponding chain out of the real wrapper types (HookThenServe, ServeThenHook,
//! HookThenServeThenHook, BeforeRequestCons/Nil), serves one request through it and logs every
//! hook / handler invocation with the context value (trace id) and result each one saw.

use crate::{
    exec::{self, emit},
    Args, Sched,
};
use futures::{executor::block_on, Future};
use rand::{rngs::StdRng, Rng, SeedableRng};
use serde_json::{json, Value};
use std::pin::Pin;
use tarpc::{
    context,
    server::{
        request_hook::{before, AfterRequest, BeforeRequest, BeforeRequestList, RequestHook},
        Serve,
    },
    trace, ServerError,
};

#[derive(Clone, Debug)]
struct H {
    id: u64,
    fail: bool,
    set: u64,
    rw: u64,
}

thread_local! {
    static ANCHOR: std::time::Instant = std::time::Instant::now();
    /// every other scenario runs with deadlines that have long elapsed (what the wrappers do must not depend on it)
    static ELAPSED: std::cell::Cell<bool> = const { std::cell::Cell::new(false) };
    /// the instant that stands for context value 0 in the deadline: an hour ahead, or two hours ago
    static BASE: std::cell::Cell<Option<std::time::Instant>> = const { std::cell::Cell::new(None) };
}
fn base() -> std::time::Instant {
    let a = ANCHOR.with(|a| *a);
    if ELAPSED.with(|e| e.get()) {
        a.checked_sub(std::time::Duration::from_secs(7200)).unwrap_or(a)
    } else {
        a + std::time::Duration::from_secs(3600)
    }
}
/// The specification's context value is carried twice: as the trace id and as the deadline (BASE + v seconds), so that a
/// change to either field that a later hook or the handler does not see shows up as a value the specification never predicts.
fn ctx_val(ctx: &context::Context) -> u64 {
    let tv = u128::from(ctx.trace_context.trace_id) as u64;
    let base = base();
    let dv = if ctx.deadline >= base { (ctx.deadline - base).as_secs() } else { 999 };
    if tv == dv {
        tv
    } else {
        1_000_000 + dv * 1000 + tv
    }
}
fn set_ctx(ctx: &mut context::Context, v: u64) {
    ctx.trace_context.trace_id = trace::TraceId::from(v as u128);
    ctx.deadline = base() + std::time::Duration::from_secs(v);
}
fn res_fields(r: &Result<String, ServerError>) -> (bool, i64) {
    match r {
        Ok(s) => (true, s.parse().unwrap_or(-1)),
        Err(e) => (false, e.detail.parse().unwrap_or(-1)),
    }
}

impl BeforeRequest<String> for H {
    async fn before(&mut self, ctx: &mut context::Context, _req: &String) -> Result<(), ServerError> {
        emit("HookEv", json!({"kind": "before", "id": self.id, "ctx": ctx_val(ctx), "ok": true, "v": 0}));
        if self.fail {
            return Err(ServerError::new(std::io::ErrorKind::Other, format!("{}", 700 + self.id)));
        }
        if self.set != 0 {
            set_ctx(ctx, self.set);
        }
        Ok(())
    }
}

impl AfterRequest<String> for H {
    async fn after(&mut self, ctx: &mut context::Context, resp: &mut Result<String, ServerError>) {
        let (ok, v) = res_fields(resp);
        emit("HookEv", json!({"kind": "after", "id": self.id, "ctx": ctx_val(ctx), "ok": ok, "v": v}));
        match self.rw {
            1 => *resp = Ok(format!("{}", 900 + self.id)),
            2 => *resp = Err(ServerError::new(std::io::ErrorKind::Other, format!("{}", 800 + self.id))),
            _ => {}
        }
        // an after-hook may scribble on its context copy; nobody must see it
        set_ctx(ctx, 55);
    }
}

#[derive(Clone)]
struct Base;
impl Serve for Base {
    type Req = String;
    type Resp = String;
    async fn serve(self, ctx: context::Context, _req: String) -> Result<String, ServerError> {
        emit("HookEv", json!({"kind": "handler", "id": 0, "ctx": ctx_val(&ctx), "ok": true, "v": 0}));
        Ok(format!("{}", 100 + ctx_val(&ctx)))
    }
}

#[derive(Clone, Debug)]
enum Op {
    Before(H),
    After(H),
    Both(H),
    List(Vec<H>),
}

type Out = Pin<Box<dyn Future<Output = Result<String, ServerError>>>>;

fn parse_h(v: &Value) -> H {
    H {
        id: v["id"].as_u64().unwrap_or(0),
        fail: v["fail"].as_bool().unwrap_or(false),
        set: v["set"].as_u64().unwrap_or(0),
        rw: v["rw"].as_u64().unwrap_or(0),
    }
}

/// Flattens the nested expression into wrapper operations, innermost first.
fn flatten(e: &Value, ops: &mut Vec<Op>) {
    let k = e["k"].as_str().unwrap_or("base");
    if k == "base" {
        return;
    }
    flatten(&e["s"], ops);
    match k {
        "before" => ops.push(Op::Before(parse_h(&e["h"]))),
        "after" => ops.push(Op::After(parse_h(&e["h"]))),
        "both" => ops.push(Op::Both(parse_h(&e["h"]))),
        "list" => ops.push(Op::List(
            e["hs"].as_array().map(|a| a.iter().map(parse_h).collect()).unwrap_or_default(),
        )),
        _ => {}
    }
}

// Depth-indexed builders: the chain's type grows with every wrapper, so the recursion is unrolled.
macro_rules! level {
    ($name:ident, $next:ident) => {
        fn $name<S>(s: S, ops: &[Op], ctx: context::Context) -> Out
        where
            S: Serve<Req = String, Resp = String> + 'static,
        {
            match ops.split_first() {
                None => Box::pin(s.serve(ctx, "req".to_string())),
                Some((Op::Before(h), rest)) => $next(s.before(h.clone()), rest, ctx),
                Some((Op::After(h), rest)) => $next(s.after(h.clone()), rest, ctx),
                Some((Op::Both(h), rest)) => $next(s.before_and_after(h.clone()), rest, ctx),
                Some((Op::List(hs), rest)) => match hs.len() {
                    0 => $next(before().serving(s), rest, ctx),
                    1 => $next(before().then(hs[0].clone()).serving(s), rest, ctx),
                    2 => $next(before().then(hs[0].clone()).then(hs[1].clone()).serving(s), rest, ctx),
                    _ => $next(
                        before().then(hs[0].clone()).then(hs[1].clone()).then(hs[2].clone()).serving(s),
                        rest,
                        ctx,
                    ),
                },
            }
        }
    };
}

fn level_end<S>(s: S, _ops: &[Op], ctx: context::Context) -> Out
where
    S: Serve<Req = String, Resp = String> + 'static,
{
    Box::pin(s.serve(ctx, "req".to_string()))
}
level!(level3, level_end);
level!(level2, level3);
level!(level1, level2);
level!(level0, level1);

fn random_h(rng: &mut StdRng, d: u64, before_only: bool, after_only: bool) -> Value {
    let fail = !after_only && rng.gen_range(0..4) == 0;
    let set = if after_only || rng.gen_bool(0.5) { 0 } else { d };
    let rw = if before_only { 0 } else { rng.gen_range(0..3u64) };
    json!({"id": d, "fail": fail, "set": set, "rw": rw})
}

fn random_expr(rng: &mut StdRng, depth: u64) -> Value {
    let mut e = json!({"k": "base"});
    for d in 1..=depth {
        e = match rng.gen_range(0..4) {
            0 => json!({"k": "before", "h": random_h(rng, d, true, false), "s": e}),
            1 => json!({"k": "after", "h": random_h(rng, d, false, true), "s": e}),
            2 => json!({"k": "both", "h": random_h(rng, d, false, false), "s": e}),
            _ => {
                let n = rng.gen_range(0..=3);
                let hs: Vec<Value> = (0..n).map(|_| random_h(rng, d, true, false)).collect();
                json!({"k": "list", "hs": hs, "s": e})
            }
        };
    }
    e
}

pub fn run(a: &Args) -> Value {
    let mut scheds: Vec<Sched> = a.sched.as_deref().map(crate::load_scheds).unwrap_or_default();
    let mut rng = StdRng::seed_from_u64(a.seed ^ 0x400C5);
    for i in 0..a.random {
        let depth = rng.gen_range(0..=4);
        scheds.push(Sched {
            id: format!("r{}", i),
            cfg: json!({"expr": random_expr(&mut rng, depth)}),
            steps: vec![],
            expect: None,
        });
    }
    let mut index = vec![];
    for (si, s) in scheds.iter().enumerate() {
        let scn = si as u64 + 1;
        exec::log_begin_scenario(scn);
        let expr = s.cfg.get("expr").cloned().unwrap_or(json!({"k": "base"}));
        ELAPSED.with(|e| e.set(s.cfg.get("elapsed").and_then(|v| v.as_bool()).unwrap_or(scn % 2 == 0)));
        emit("Reset", json!({"id": s.id, "expr": expr}));
        let mut ops = vec![];
        flatten(&expr, &mut ops);
        let mut ctx = context::current();
        set_ctx(&mut ctx, 0);
        let r = exec::catch(|| block_on(level0(Base, &ops, ctx)));
        match r {
            Ok(res) => {
                let (ok, v) = res_fields(&res);
                emit("HookResult", json!({"ok": ok, "v": v}));
            }
            Err(msg) => emit("Panic", json!({"msg": msg})),
        }
        emit("EndScenario", json!({}));
        let mut cfg = s.cfg.clone();
        cfg["elapsed"] = json!(ELAPSED.with(|e| e.get()));
        index.push(json!({"scn": scn, "id": s.id, "cfg": cfg, "steps": []}));
    }
    json!({"family": "hooks", "executed": scheds.len(), "steps": 0, "skipped_steps": 0,
           "mismatches": [], "index": index})
}
