//! Instrumented transport: a `Sink + Stream` whose every call is logged and whose behaviour is
//! set by the scenario (spec/Transport.tla describes the same state machine).
//!
//! Sink modes
//!   always       poll_ready and poll_flush always complete.
//!   coupled      socket-like: poll_ready is Pending iff `cap` written items are unflushed;
//!                poll_flush completes only while the sink is *open* (environment steps
//!                SinkOpen / SinkBlock), so "not ready" implies "flush pending".
//!   independent  bounded-queue-like (e.g. PollSender): poll_flush always completes at once;
//!                poll_ready needs a credit granted by the environment (SinkCredit), which the
//!                following start_send consumes.

use crate::exec::{emit, log_task};
use futures::{Sink, Stream};
use serde_json::{json, Value};
use std::{
    cell::RefCell,
    collections::VecDeque,
    fmt,
    pin::Pin,
    rc::Rc,
    task::{Context, Poll, Waker},
};

/// The failures the instrumented transport injects are ordinary `io::Error`s, as a socket transport would produce them; the
/// kind depends on the failing operation (what tarpc must do with a transport failure does not depend on its kind).
pub type VErr = std::io::Error;
fn verr(op: &str) -> VErr {
    let kind = match op {
        "next" => std::io::ErrorKind::ConnectionReset,
        "ready" => std::io::ErrorKind::BrokenPipe,
        "send" => std::io::ErrorKind::ConnectionAborted,
        "flush" => std::io::ErrorKind::UnexpectedEof,
        "close" => std::io::ErrorKind::NotConnected,
        _ => std::io::ErrorKind::Other,
    };
    std::io::Error::new(kind, format!("verr:{}", op))
}

#[derive(Clone, Copy, PartialEq, Eq, Debug)]
pub enum Mode {
    Always,
    Coupled,
    Independent,
}

pub struct VState<SI, I> {
    pub ep: String,
    pub inq: VecDeque<I>,
    pub in_eof: bool,
    pub rd_waker: Option<Waker>,
    pub mode: Mode,
    pub cap: usize,
    pub open: bool,
    pub credits: usize,
    pub buffered: VecDeque<SI>,
    pub out: VecDeque<SI>,
    pub wr_waker: Option<Waker>,
    pub fl_waker: Option<Waker>,
    pub closed: bool,
    pub failed: bool,
    /// fail the k-th next call of the named op ("next","ready","send","flush","close")
    pub fault: Option<(String, u32)>,
    pub ops_in_poll: u32,
    pub spin_limit: u32,
    pub describe_out: fn(&SI) -> Value,
    pub describe_in: fn(&I) -> Value,
    pub total_ops: u64,
}

pub type Shared<SI, I> = Rc<RefCell<VState<SI, I>>>;

pub struct VTransport<SI, I>(pub Shared<SI, I>);

pub fn new<SI, I>(
    ep: &str,
    mode: Mode,
    cap: usize,
    describe_out: fn(&SI) -> Value,
    describe_in: fn(&I) -> Value,
) -> (VTransport<SI, I>, Shared<SI, I>) {
    let st = Rc::new(RefCell::new(VState {
        ep: ep.to_string(),
        inq: VecDeque::new(),
        in_eof: false,
        rd_waker: None,
        mode,
        cap: cap.max(1),
        open: true,
        credits: 0,
        buffered: VecDeque::new(),
        out: VecDeque::new(),
        wr_waker: None,
        fl_waker: None,
        closed: false,
        failed: false,
        fault: None,
        ops_in_poll: 0,
        spin_limit: 400,
        describe_out,
        describe_in,
        total_ops: 0,
    }));
    (VTransport(st.clone()), st)
}

impl<SI, I> VState<SI, I> {
    /// Called by the scenario before it polls a task that owns this transport.
    pub fn begin_poll(&mut self) {
        self.ops_in_poll = 0;
    }
    fn op(&mut self, op: &str) -> bool {
        self.ops_in_poll += 1;
        self.total_ops += 1;
        if self.ops_in_poll > self.spin_limit {
            emit("Spin", json!({"ep": self.ep, "op": op}));
            panic!("spin guard: {} transport ops in one poll", self.ops_in_poll);
        }
        // fault injection: is this the armed call?
        if let Some((fop, k)) = &mut self.fault {
            if fop == op {
                if *k <= 1 {
                    self.fault = None;
                    return true;
                }
                *k -= 1;
            }
        }
        false
    }
    fn log(&self, op: &str, res: &str, extra: Value) {
        let mut v = json!({"ep": self.ep, "op": op, "res": res, "unflushed": self.buffered.len()});
        if let (Value::Object(m), Value::Object(e)) = (&mut v, extra) {
            for (k, x) in e {
                m.insert(k, x);
            }
        }
        emit("SinkOp", v);
    }
    // ---- environment steps
    pub fn push_in(&mut self, item: I) {
        self.inq.push_back(item);
        if let Some(w) = self.rd_waker.take() {
            w.wake();
        }
    }
    pub fn push_eof(&mut self) {
        self.in_eof = true;
        if let Some(w) = self.rd_waker.take() {
            w.wake();
        }
    }
    pub fn set_open(&mut self, open: bool) {
        self.open = open;
        if open {
            if let Some(w) = self.fl_waker.take() {
                w.wake();
            }
            if let Some(w) = self.wr_waker.take() {
                w.wake();
            }
        }
    }
    pub fn add_credit(&mut self, n: usize) {
        self.credits += n;
        if let Some(w) = self.wr_waker.take() {
            w.wake();
        }
    }
    pub fn arm(&mut self, op: &str, k: u32) {
        self.fault = Some((op.to_string(), k.max(1)));
        // A fault on a pending operation must be noticed: wake whoever waits on that op.
        let w = match op {
            "next" => self.rd_waker.take(),
            "ready" => self.wr_waker.take(),
            "flush" => self.fl_waker.take(),
            _ => None,
        };
        if let Some(w) = w {
            w.wake();
        }
    }
    /// Would a poll_ready succeed right now (without side effects)?
    pub fn writable_now(&self) -> bool {
        match self.mode {
            Mode::Always => true,
            Mode::Coupled => self.buffered.len() < self.cap || self.open,
            Mode::Independent => self.credits > 0,
        }
    }
}

impl<SI, I> Stream for VTransport<SI, I> {
    type Item = Result<I, VErr>;
    fn poll_next(self: Pin<&mut Self>, cx: &mut Context<'_>) -> Poll<Option<Self::Item>> {
        let mut s = self.0.borrow_mut();
        if s.op("next") {
            s.failed = true;
            s.log("next", "err", json!({}));
            emit("Fault", json!({"ep": s.ep, "op": "next", "kind": "", "c": -1}));
            return Poll::Ready(Some(Err(verr("next"))));
        }
        if let Some(item) = s.inq.pop_front() {
            let d = (s.describe_in)(&item);
            s.log("next", "item", json!({}));
            emit("WireIn", json!({"ep": s.ep, "item": d}));
            Poll::Ready(Some(Ok(item)))
        } else if s.in_eof {
            s.log("next", "eof", json!({}));
            emit("WireInEof", json!({"ep": s.ep}));
            Poll::Ready(None)
        } else {
            s.rd_waker = Some(cx.waker().clone());
            s.log("next", "pending", json!({}));
            Poll::Pending
        }
    }
}

impl<SI, I> Sink<SI> for VTransport<SI, I> {
    type Error = VErr;

    fn poll_ready(self: Pin<&mut Self>, cx: &mut Context<'_>) -> Poll<Result<(), VErr>> {
        let mut s = self.0.borrow_mut();
        if s.op("ready") {
            s.failed = true;
            s.log("ready", "err", json!({}));
            emit("Fault", json!({"ep": s.ep, "op": "ready", "kind": "", "c": -1}));
            return Poll::Ready(Err(verr("ready")));
        }
        let ok = match s.mode {
            Mode::Always => true,
            Mode::Coupled => s.buffered.len() < s.cap,
            Mode::Independent => s.credits > 0,
        };
        if ok {
            s.log("ready", "ok", json!({}));
            Poll::Ready(Ok(()))
        } else {
            s.wr_waker = Some(cx.waker().clone());
            s.log("ready", "pending", json!({}));
            Poll::Pending
        }
    }

    fn start_send(self: Pin<&mut Self>, item: SI) -> Result<(), VErr> {
        let mut s = self.0.borrow_mut();
        let d = (s.describe_out)(&item);
        if s.op("send") {
            // A failed start_send of one item is not a failure of the connection.
            s.log("send", "err", json!({"item": d}));
            emit("Fault", json!({"ep": s.ep, "op": "send", "kind": d.get("kind").cloned().unwrap_or(json!("")), "c": d.get("c").cloned().unwrap_or(json!(-1)), "item": d}));
            return Err(verr("send"));
        }
        // a sink that was not ready cannot take the item (as a bounded queue or a full socket buffer would)
        let room = match s.mode {
            Mode::Always => true,
            Mode::Coupled => s.buffered.len() < s.cap,
            Mode::Independent => s.credits > 0,
        };
        if !room {
            s.log("send", "full", json!({"item": d}));
            emit("SendRefused", json!({"ep": s.ep, "item": d}));
            return Err(verr("full"));
        }
        if s.mode == Mode::Independent && s.credits > 0 {
            s.credits -= 1;
        }
        s.buffered.push_back(item);
        s.log("send", "ok", json!({}));
        emit("WireOut", json!({"ep": s.ep, "item": d}));
        Ok(())
    }

    fn poll_flush(self: Pin<&mut Self>, cx: &mut Context<'_>) -> Poll<Result<(), VErr>> {
        let mut s = self.0.borrow_mut();
        if s.op("flush") {
            s.failed = true;
            s.log("flush", "err", json!({}));
            emit("Fault", json!({"ep": s.ep, "op": "flush", "kind": "", "c": -1}));
            return Poll::Ready(Err(verr("flush")));
        }
        let can = match s.mode {
            Mode::Always | Mode::Independent => true,
            Mode::Coupled => s.open || s.buffered.is_empty(),
        };
        if can {
            let n = s.buffered.len();
            while let Some(x) = s.buffered.pop_front() {
                s.out.push_back(x);
            }
            s.log("flush", "ok", json!({"n": n}));
            // room was made: a task waiting for readiness may proceed
            if n > 0 {
                if let Some(w) = s.wr_waker.take() {
                    w.wake();
                }
            }
            Poll::Ready(Ok(()))
        } else {
            s.fl_waker = Some(cx.waker().clone());
            s.log("flush", "pending", json!({}));
            Poll::Pending
        }
    }

    fn poll_close(self: Pin<&mut Self>, cx: &mut Context<'_>) -> Poll<Result<(), VErr>> {
        let mut s = self.0.borrow_mut();
        if s.op("close") {
            s.failed = true;
            s.log("close", "err", json!({}));
            emit("Fault", json!({"ep": s.ep, "op": "close", "kind": "", "c": -1}));
            return Poll::Ready(Err(verr("close")));
        }
        let can = match s.mode {
            Mode::Always | Mode::Independent => true,
            Mode::Coupled => s.open || s.buffered.is_empty(),
        };
        if can {
            while let Some(x) = s.buffered.pop_front() {
                s.out.push_back(x);
            }
            s.closed = true;
            s.log("close", "ok", json!({}));
            emit("WireClose", json!({"ep": s.ep}));
            Poll::Ready(Ok(()))
        } else {
            s.fl_waker = Some(cx.waker().clone());
            s.log("close", "pending", json!({}));
            Poll::Pending
        }
    }
}

pub fn mode_of(s: &str) -> Mode {
    match s {
        "coupled" => Mode::Coupled,
        "independent" => Mode::Independent,
        _ => Mode::Always,
    }
}

#[allow(dead_code)]
pub fn task_name() -> String {
    log_task()
}
