//! Family `keys`: MaxChannelsPerKey (property C13; specification spec/ChannelsPerKey.tla).
//!
//! Steps: {"a":"Arrive","k":K} | {"a":"Close","ch":A} | {"a":"Poll"} | {"a":"End"}
//! Channels are identified by their arrival number A = 1, 2, ...

use crate::{
    exec::{self, emit, Flag},
    Args, Sched,
};
use futures::{task::Context, Stream, StreamExt};
use rand::{rngs::StdRng, Rng, SeedableRng};
use serde_json::{json, Value};
use std::{
    cell::RefCell,
    collections::{BTreeMap, VecDeque},
    pin::Pin,
    rc::Rc,
    sync::Arc,
    task::{Poll, Waker},
};
use tarpc::{
    server::{incoming::Incoming, BaseChannel},
    transport::channel::{self, UnboundedChannel},
    ClientMessage, Response,
};

type Tr = UnboundedChannel<ClientMessage<String>, Response<String>>;
type Ch = BaseChannel<String, String, Tr>;

#[derive(Default)]
struct ListenerState {
    q: VecDeque<Ch>,
    ended: bool,
    waker: Option<Waker>,
}

struct Listener(Rc<RefCell<ListenerState>>);

impl Stream for Listener {
    type Item = Ch;
    fn poll_next(self: Pin<&mut Self>, cx: &mut Context<'_>) -> Poll<Option<Ch>> {
        let mut s = self.0.borrow_mut();
        if let Some(c) = s.q.pop_front() {
            Poll::Ready(Some(c))
        } else if s.ended {
            Poll::Ready(None)
        } else {
            s.waker = Some(cx.waker().clone());
            Poll::Pending
        }
    }
}

/// The key type handed to the limiter: distinct keys are distinct (`Eq` compares the value) but they all hash alike - a legal
/// `Hash` implementation (equal keys hash equally), and the worst case for anything that identifies a key by its hash.
#[derive(Clone, PartialEq, Eq, Debug)]
struct HKey(u64);
impl std::hash::Hash for HKey {
    fn hash<H: std::hash::Hasher>(&self, state: &mut H) {
        0u8.hash(state);
    }
}
impl std::fmt::Display for HKey {
    fn fmt(&self, f: &mut std::fmt::Formatter<'_>) -> std::fmt::Result {
        write!(f, "{}", self.0)
    }
}

#[derive(Default)]
struct KeyState {
    /// keys of arrivals, in arrival order, not yet seen by the keymaker
    pending_keys: VecDeque<(u64, u64)>,
    /// the arrival most recently seen by the keymaker and not yet resolved (yielded or shed)
    considering: Option<(u64, u64)>,
}

pub fn run(a: &Args) -> Value {
    let mut scheds: Vec<Sched> = a.sched.as_deref().map(crate::load_scheds).unwrap_or_default();
    let mut rng = StdRng::seed_from_u64(a.seed);
    let n_opt = a.opt_u64("n", 0);
    for i in 0..a.random {
        let n = if n_opt > 0 { n_opt } else { rng.gen_range(1..=3) };
        let keys = rng.gen_range(1..=3u64);
        scheds.push(Sched {
            id: format!("r{}", i),
            cfg: json!({"n": n, "keys": keys, "random": true, "len": rng.gen_range(6..40)}),
            steps: vec![],
            expect: None,
        });
    }
    let mut mismatches = vec![];
    let mut executed = 0u64;
    let mut steps_total = 0u64;
    let mut skipped = 0u64;
    let mut index = vec![];
    for (si, s) in scheds.iter().enumerate() {
        let scn = si as u64 + 1;
        let r = run_one(scn, s, &mut rng);
        executed += 1;
        steps_total += r.steps.len() as u64;
        skipped += r.skipped;
        if let Some(m) = r.mismatch {
            if mismatches.len() < 20 {
                mismatches.push(json!({"id": s.id, "scn": scn, "at": m}));
            }
        }
        index.push(json!({"scn": scn, "id": s.id, "cfg": s.cfg, "steps": r.steps}));
    }
    json!({
        "family": "keys",
        "executed": executed,
        "steps": steps_total,
        "skipped_steps": skipped,
        "mismatches": mismatches,
        "index": index,
    })
}

struct OneResult {
    steps: Vec<Value>,
    skipped: u64,
    mismatch: Option<Value>,
}

fn run_one(scn: u64, s: &Sched, rng: &mut StdRng) -> OneResult {
    exec::log_begin_scenario(scn);
    let n = s.cfg.get("n").and_then(|v| v.as_u64()).unwrap_or(1) as u32;
    emit("Reset", json!({"n": n, "id": s.id}));
    let lst = Rc::new(RefCell::new(ListenerState::default()));
    let ks = Rc::new(RefCell::new(KeyState::default()));
    let ks2 = ks.clone();
    let keymaker = move |_c: &Ch| -> HKey {
        let mut k = ks2.borrow_mut();
        if let Some((pa, pk)) = k.considering.take() {
            emit("Shed", json!({"ch": pa, "k": pk}));
        }
        let (a, key) = k.pending_keys.pop_front().expect("keymaker called without arrival");
        k.considering = Some((a, key));
        HKey(key)
    };
    let mut stream = Some(Box::pin(
        Listener(lst.clone()).max_channels_per_key(n, keymaker),
    ));
    let flag = Flag::new("limiter", true);
    let mut live: BTreeMap<u64, Pin<Box<tarpc::server::limits::channels_per_key::TrackedChannel<Ch, HKey>>>> = BTreeMap::new();
    let mut peers: BTreeMap<u64, Box<dyn std::any::Any>> = BTreeMap::new();
    let mut arrivals = 0u64;
    let mut done_steps = vec![];
    let mut skipped = 0u64;
    let mut mismatch = None;
    let random = s.cfg.get("random").and_then(|v| v.as_bool()).unwrap_or(false);
    let len = s.cfg.get("len").and_then(|v| v.as_u64()).unwrap_or(0);
    let nkeys = s.cfg.get("keys").and_then(|v| v.as_u64()).unwrap_or(2);
    let mut ended = false;
    let mut i = 0usize;
    loop {
        let step: Value = if random {
            if i as u64 >= len {
                break;
            }
            // choose among enabled steps
            let mut choices: Vec<Value> = vec![];
            if !ended {
                for _ in 0..2 {
                    choices.push(json!({"a":"Arrive","k": rng.gen_range(1..=nkeys)}));
                }
            }
            for a in live.keys() {
                choices.push(json!({"a":"Close","ch": a}));
                if peers.contains_key(a) && rng.gen_range(0..3) == 0 {
                    choices.push(json!({"a":"Exhaust","ch": a}));
                }
            }
            if flag.is_set() && stream.is_some() {
                for _ in 0..3 {
                    choices.push(json!({"a":"Poll"}));
                }
            }
            if !ended && rng.gen_range(0..30) == 0 {
                choices.push(json!({"a":"End"}));
            }
            if choices.is_empty() {
                break;
            }
            choices[rng.gen_range(0..choices.len())].clone()
        } else {
            if i >= s.steps.len() {
                break;
            }
            s.steps[i].clone()
        };
        i += 1;
        let act = step.get("a").and_then(|v| v.as_str()).unwrap_or("");
        let mut proj = json!({});
        match act {
            "Arrive" => {
                let k = step["k"].as_u64().unwrap();
                arrivals += 1;
                let (client_side, server_side) = channel::unbounded();
                peers.insert(arrivals, Box::new(client_side));
                let ch: Ch = BaseChannel::with_defaults(server_side);
                ks.borrow_mut().pending_keys.push_back((arrivals, k));
                emit("Arrive", json!({"ch": arrivals, "k": k}));
                let w = {
                    let mut l = lst.borrow_mut();
                    l.q.push_back(ch);
                    l.waker.take()
                };
                if let Some(w) = w {
                    w.wake();
                }
            }
            "Close" => {
                let a = step["ch"].as_u64().unwrap();
                if let Some(c) = live.remove(&a) {
                    emit("Close", json!({"ch": a}));
                    drop(c);
                } else {
                    skipped += 1;
                    continue;
                }
            }
            "Exhaust" => {
                // the peer of a yielded channel hangs up and the channel's own request stream is polled to its end, but
                // the channel stays alive (its owner keeps it): it still counts against its key
                let a = step["ch"].as_u64().unwrap();
                let had_peer = peers.remove(&a).is_some(); // the peer's end is dropped here
                if let (true, Some(tc)) = (had_peer, live.get_mut(&a)) {
                    let w = futures::task::noop_waker();
                    let mut cx = Context::from_waker(&w);
                    let mut ended_stream = false;
                    for _ in 0..4 {
                        if let Poll::Ready(None) = tc.as_mut().poll_next(&mut cx) {
                            ended_stream = true;
                            break;
                        }
                    }
                    emit("Exhaust", json!({"ch": a, "ended": ended_stream}));
                } else {
                    skipped += 1;
                    continue;
                }
            }
            "End" => {
                ended = true;
                let w = {
                    let mut l = lst.borrow_mut();
                    l.ended = true;
                    l.waker.take()
                };
                emit("End", json!({}));
                if let Some(w) = w {
                    w.wake();
                }
            }
            "Poll" => {
                if !flag.is_set() || stream.is_none() {
                    skipped += 1;
                    continue;
                }
                flag.clear();
                let waker = flag.waker();
                let mut cx = Context::from_waker(&waker);
                let prev = exec::log_set_task("limiter");
                let mut st = stream.take().unwrap();
                let r = exec::catch(|| st.as_mut().poll_next_unpin(&mut cx));
                exec::log_set_task(&prev);
                match r {
                    Ok(Poll::Ready(Some(tc))) => {
                        let (a, k) = ks.borrow_mut().considering.take().expect("yield without consider");
                        emit("Yield", json!({"ch": a, "k": k}));
                        live.insert(a, Box::pin(tc));
                        // a stream that returned an item is polled again
                        flag.set.store(true, std::sync::atomic::Ordering::SeqCst);
                        proj = json!({"res": "yield", "ch": a});
                        stream = Some(st);
                    }
                    Ok(Poll::Ready(None)) => {
                        if let Some((pa, pk)) = ks.borrow_mut().considering.take() {
                            emit("Shed", json!({"ch": pa, "k": pk}));
                        }
                        emit("StreamEnd", json!({}));
                        proj = json!({"res": "none"});
                        drop(st);
                    }
                    Ok(Poll::Pending) => {
                        if let Some((pa, pk)) = ks.borrow_mut().considering.take() {
                            emit("Shed", json!({"ch": pa, "k": pk}));
                        }
                        emit("PollPending", json!({}));
                        proj = json!({"res": "pending"});
                        stream = Some(st);
                    }
                    Err(msg) => {
                        emit("Panic", json!({"msg": msg}));
                        proj = json!({"res": "panic"});
                    }
                }
            }
            _ => {
                skipped += 1;
                continue;
            }
        }
        let livev: Vec<u64> = live.keys().cloned().collect();
        proj["live"] = json!(livev);
        proj["woken"] = json!(flag.is_set());
        if let Some(exp) = &s.expect {
            if mismatch.is_none() {
                if let Some(e) = exp.get(i - 1) {
                    if !proj_matches(e, &proj) {
                        mismatch = Some(json!({"step": i - 1, "action": step, "expected": e, "got": proj}));
                    }
                }
            }
        }
        done_steps.push(step);
    }
    emit("EndScenario", json!({}));
    let _ = Arc::strong_count(&flag);
    OneResult {
        steps: done_steps,
        skipped,
        mismatch,
    }
}

/// Every key present in the expectation must be equal in the observed projection.
pub fn proj_matches(exp: &Value, got: &Value) -> bool {
    match exp {
        Value::Object(m) => m.iter().all(|(k, v)| got.get(k).map(|g| g == v).unwrap_or(false)),
        _ => true,
    }
}
