//! Family `stubs`: RoundRobin / ConsistentHash / Retry stubs (property C20; spec/Stubs.tla).
//!
//! cfg.kind = "rr"   {n, threads, picks}       real threads hammer one RoundRobin
//!            "rri"  {n, calls}                calls issued one after another (exact cursor check)
//!            "ch"   {n, table:[..], reqs:[..]} ConsistentHash with a table-driven hasher
//!            "retry"{script:[..], policy:[[..]..]} Retry over a scripted backend and a table policy

use crate::{
    exec::{self, emit},
    Args, Sched,
};
use futures::executor::block_on;
use rand::{rngs::StdRng, Rng, SeedableRng};
use serde_json::{json, Value};
use std::{
    hash::{BuildHasher, Hasher},
    sync::{
        atomic::{AtomicU32, Ordering},
        Arc, Mutex,
    },
};
use tarpc::{
    client::{
        stub::{
            load_balance::{ConsistentHash, RoundRobin},
            retry::Retry,
            Stub,
        },
        RpcError,
    },
    context,
};

#[derive(Clone)]
struct RecStub {
    idx: usize,
    log: Arc<Mutex<Vec<(u64, usize)>>>,
}
impl Stub for RecStub {
    type Req = u64;
    type Resp = u64;
    async fn call(&self, _ctx: context::Context, req: u64) -> Result<u64, RpcError> {
        self.log.lock().unwrap().push((req, self.idx));
        Ok(req)
    }
}

#[derive(Clone)]
struct TableHasher(Arc<Vec<u64>>);
struct TH(Arc<Vec<u64>>, u64);
impl BuildHasher for TableHasher {
    type Hasher = TH;
    fn build_hasher(&self) -> TH {
        TH(self.0.clone(), 0)
    }
}
impl Hasher for TH {
    fn finish(&self) -> u64 {
        self.1
    }
    fn write(&mut self, bytes: &[u8]) {
        let mut b = [0u8; 8];
        let n = bytes.len().min(8);
        b[..n].copy_from_slice(&bytes[..n]);
        let v = u64::from_le_bytes(b) as usize;
        self.1 = self.0[v % self.0.len()];
    }
}

/// the context the scripted caller supplies: a deadline 7 s after `base` and a trace context with unequal halves
fn caller_ctx(base: std::time::Instant) -> context::Context {
    let mut c = context::current();
    // `base` is either now (deadline 7 s ahead) or 60 s in the past (deadline long elapsed: the stub must not care)
    c.deadline = base + std::time::Duration::from_secs(7);
    c.trace_context = tarpc::trace::Context {
        trace_id: tarpc::trace::TraceId::from((0x1122_3344_5566_7788u128 << 64) | 0x99aa),
        span_id: tarpc::trace::SpanId::from(0x4242u64),
        sampling_decision: tarpc::trace::SamplingDecision::Sampled,
    };
    c
}

struct ScriptStub {
    base: std::time::Instant,
    /// which RpcError an "err" entry of the script produces: "deadline" | "shutdown" | "server"
    errkind: String,
    script: Vec<String>,
    n: AtomicU32,
    first: Mutex<Option<usize>>,
}
impl Stub for ScriptStub {
    type Req = Arc<u64>;
    type Resp = u64;
    async fn call(&self, ctx: context::Context, req: Arc<u64>) -> Result<u64, RpcError> {
        let n = self.n.fetch_add(1, Ordering::SeqCst) + 1;
        // every attempt must carry the caller's context: its deadline and its trace context
        let want = caller_ctx(self.base);
        let dlsame = ctx.deadline == want.deadline;
        let trsame = ctx.trace_context.trace_id == want.trace_context.trace_id
            && ctx.trace_context.span_id == want.trace_context.span_id
            && ctx.trace_context.sampling_decision == want.trace_context.sampling_decision;
        let ptr = Arc::as_ptr(&req) as usize;
        let same = {
            let mut f = self.first.lock().unwrap();
            match *f {
                None => {
                    *f = Some(ptr);
                    true
                }
                Some(p) => p == ptr,
            }
        };
        let r = self.script.get((n - 1) as usize).cloned().unwrap_or_else(|| "ok".to_string());
        emit("Attempt", json!({"n": n, "req": *req, "same": same, "res": r, "errkind": self.errkind, "dlsame": dlsame, "trsame": trsame}));
        if r == "ok" {
            Ok(n as u64)
        } else {
            Err(match self.errkind.as_str() {
                "shutdown" => RpcError::Shutdown,
                "server" => RpcError::Server(tarpc::ServerError::new(std::io::ErrorKind::Other, "scripted".to_string())),
                _ => RpcError::DeadlineExceeded,
            })
        }
    }
}

fn run_one(s: &Sched) {
    let cfg = &s.cfg;
    let kind = cfg["kind"].as_str().unwrap_or("rr");
    let n = cfg["n"].as_u64().unwrap_or(2) as usize;
    emit("Reset", json!({"id": s.id, "kind": kind, "n": n}));
    match kind {
        "rr" => {
            let threads = cfg["threads"].as_u64().unwrap_or(2);
            let picks = cfg["picks"].as_u64().unwrap_or(2);
            let log = Arc::new(Mutex::new(vec![]));
            let rr = RoundRobin::new((0..n).map(|i| RecStub { idx: i, log: log.clone() }).collect());
            let barrier = Arc::new(std::sync::Barrier::new(threads as usize));
            let hs: Vec<_> = (0..threads)
                .map(|t| {
                    let rr = rr.clone();
                    let barrier = barrier.clone();
                    std::thread::spawn(move || {
                        barrier.wait();
                        for i in 0..picks {
                            let _ = block_on(rr.call(context::current(), t * 1000 + i));
                        }
                    })
                })
                .collect();
            for h in hs {
                let _ = h.join();
            }
            let l = log.lock().unwrap().clone();
            let mut counts = vec![0u64; n];
            for t in 0..threads {
                for i in 0..picks {
                    if let Some((_, b)) = l.iter().find(|(r, _)| *r == t * 1000 + i) {
                        counts[*b] += 1;
                        emit("Pick", json!({"t": t + 1, "i": i + 1, "b": b}));
                    }
                }
            }
            emit("RRDone", json!({"counts": counts, "threads": threads, "picks": picks}));
        }
        "rri" => {
            let calls = cfg["calls"].as_u64().unwrap_or(5);
            let log = Arc::new(Mutex::new(vec![]));
            let rr = RoundRobin::new((0..n).map(|i| RecStub { idx: i, log: log.clone() }).collect());
            for g in 0..calls {
                let _ = block_on(rr.call(context::current(), g));
                let b = log.lock().unwrap().last().map(|x| x.1).unwrap_or(999);
                emit("PickG", json!({"g": g, "b": b}));
            }
        }
        "ch" => {
            let table: Vec<u64> = cfg["table"].as_array().map(|a| a.iter().map(|x| x.as_u64().unwrap_or(0)).collect()).unwrap_or(vec![0]);
            let reqs: Vec<u64> = cfg["reqs"].as_array().map(|a| a.iter().map(|x| x.as_u64().unwrap_or(0)).collect()).unwrap_or_default();
            let log = Arc::new(Mutex::new(vec![]));
            let ch = ConsistentHash::with_hasher(
                (0..n).map(|i| RecStub { idx: i, log: log.clone() }).collect(),
                TableHasher(Arc::new(table.clone())),
            )
            .unwrap();
            for r in reqs {
                let res = exec::catch(|| block_on(ch.call(context::current(), r)));
                match res {
                    Ok(_) => {
                        let b = log.lock().unwrap().last().map(|x| x.1).unwrap_or(999);
                        let hv = table[(r as usize) % table.len()];
                        emit("PickCH", json!({"req": r, "hvmod": (hv as u128 % n as u128) as u64, "b": b}));
                    }
                    Err(m) => emit("Panic", json!({"msg": m})),
                }
            }
        }
        "retry" => {
            let script: Vec<String> = cfg["script"].as_array().map(|a| a.iter().map(|x| x.as_str().unwrap_or("ok").to_string()).collect()).unwrap_or_default();
            // policy[i] = [retry_on_ok, retry_on_err] for attempt i+1
            let policy: Vec<(bool, bool)> = cfg["policy"].as_array().map(|a| {
                a.iter().map(|p| (p[0].as_bool().unwrap_or(false), p[1].as_bool().unwrap_or(false))).collect()
            }).unwrap_or_default();
            let errkind = cfg["errkind"].as_str().unwrap_or("deadline").to_string();
            let now = std::time::Instant::now();
            let base = if cfg["elapsed"].as_bool().unwrap_or(false) { now.checked_sub(std::time::Duration::from_secs(60)).unwrap_or(now) } else { now };
            let stub = ScriptStub { base, errkind, script, n: AtomicU32::new(0), first: Mutex::new(None) };
            let pol = policy.clone();
            let retry = Retry::new(stub, move |res: &Result<u64, RpcError>, attempt: u32| {
                let (on_ok, on_err) = pol.get((attempt as usize).wrapping_sub(1)).cloned().unwrap_or((false, false));
                let d = if res.is_ok() { on_ok } else { on_err };
                emit("Policy", json!({"n": attempt, "res": if res.is_ok() { "ok" } else { "err" }, "d": d}));
                d
            });
            let r = exec::catch(|| block_on(retry.call(caller_ctx(base), 77u64)));
            match r {
                Ok(Ok(v)) => emit("Return", json!({"res": "ok", "v": v})),
                Ok(Err(_)) => emit("Return", json!({"res": "err", "v": 0})),
                Err(m) => emit("Panic", json!({"msg": m})),
            }
        }
        _ => {}
    }
    emit("EndScenario", json!({}));
}

pub fn run(a: &Args) -> Value {
    // `sub`: the tracing subscriber of the process (none / fmt at TRACE level): what the stubs log must not change what they do
    crate::wire::install_subscriber(&a.opt_str("sub", "none"));
    let mut scheds: Vec<Sched> = a.sched.as_deref().map(crate::load_scheds).unwrap_or_default();
    let mut rng = StdRng::seed_from_u64(a.seed ^ 0x57B5);
    for i in 0..a.random {
        let n = rng.gen_range(1..=4u64);
        let cfg = match rng.gen_range(0..4) {
            0 => json!({"kind": "rr", "n": n, "threads": rng.gen_range(2..=3u64), "picks": rng.gen_range(1..=3u64)}),
            1 => json!({"kind": "rri", "n": n, "calls": rng.gen_range(1..=9u64)}),
            2 => {
                let table: Vec<u64> = (0..4).map(|_| rng.gen_range(0..=u64::MAX)).collect();
                let reqs: Vec<u64> = (0..rng.gen_range(1..8)).map(|_| rng.gen_range(0..4u64)).collect();
                json!({"kind": "ch", "n": n, "table": table, "reqs": reqs})
            }
            _ => {
                let len = rng.gen_range(1..=5);
                let script: Vec<&str> = (0..len).map(|_| if rng.gen_bool(0.5) { "ok" } else { "err" }).collect();
                let mut policy: Vec<Value> = (0..len).map(|_| json!([rng.gen_bool(0.4), rng.gen_bool(0.7)])).collect();
                policy[len - 1] = json!([false, false]);
                let errkind = ["deadline", "shutdown", "server"][rng.gen_range(0..3)];
                json!({"kind": "retry", "n": 1, "script": script, "policy": policy, "errkind": errkind, "elapsed": rng.gen_bool(0.5)})
            }
        };
        scheds.push(Sched { id: format!("r{}", i), cfg, steps: vec![], expect: None });
    }
    let mut index = vec![];
    for (si, s) in scheds.iter().enumerate() {
        let scn = si as u64 + 1;
        exec::log_begin_scenario(scn);
        run_one(s);
        index.push(json!({"scn": scn, "id": s.id, "cfg": s.cfg, "steps": []}));
    }
    json!({"family": "stubs", "executed": scheds.len(), "steps": 0, "skipped_steps": 0,
           "mismatches": [], "index": index})
}
